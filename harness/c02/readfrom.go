package c02

import (
	"fmt"
	"strings"

	"github.com/ohler55/slip"
	"verifharness/common"
)

// Part C: cl:read-from-string.  A text is read form by form, each call starting at the position the previous
// call reported, in three ways: 0 = (read-from-string rest) on what is left of the text, 1 = (read-from-string
// text nil eof :start pos), 2 = the same with :preserve-whitespace t.  Every call (string, start, keys, what
// came back) goes to Coq to be compared with the model of the function (rfs_m) and, inside the guard, with
// the rule (rfs_s); what is decidable on the implementation alone is checked here: ways 0 and 2 must collect
// the objects of Read on the whole text, and the position reported without :preserve-whitespace must be the
// position reported with it moved over white space only, up to the first byte that is not white space.

const eofMark = "c02-eof-marker-zz"

type rfsObs struct {
	kind    string // obj | eof | err | bounds | other
	obj     slip.Object
	pos     int
	partial bool
	msg     string
}

func (o rfsObs) show() string {
	switch o.kind {
	case "obj":
		return fmt.Sprintf("%s, %d", slip.ObjectString(o.obj), o.pos)
	case "eof":
		return fmt.Sprintf("<eof>, %d", o.pos)
	case "err":
		if o.partial {
			return "!incomplete: " + o.msg
		}
		return "!parse-error: " + o.msg
	case "bounds":
		return "!bounds: " + o.msg
	}
	return "!other: " + o.msg
}

type rfsCaller struct {
	s                                *slip.Scope
	plain, keyed, keyedPW, keyedEnd slip.Object
}

func newCaller() *rfsCaller {
	s := slip.NewScope()
	s.Let(slip.Symbol("c02-text"), slip.String(""))
	s.Let(slip.Symbol("c02-pos"), slip.Fixnum(0))
	s.Let(slip.Symbol("c02-end"), slip.Fixnum(0))
	c := &rfsCaller{s: s}
	c.plain = slip.ReadString("(read-from-string c02-text)", s)[0]
	c.keyed = slip.ReadString("(read-from-string c02-text nil '"+eofMark+" :start c02-pos)", s)[0]
	c.keyedPW = slip.ReadString("(read-from-string c02-text nil '"+eofMark+" :start c02-pos :preserve-whitespace t)", s)[0]
	c.keyedEnd = slip.ReadString("(read-from-string c02-text nil '"+eofMark+" :start c02-pos :end c02-end)", s)[0]
	return c
}

// callEnd: with :start and :end
func (c *rfsCaller) callEnd(text []byte, start, end int) rfsObs {
	c.s.Set(slip.Symbol("c02-end"), slip.Fixnum(end))
	return c.callForm(c.keyedEnd, text, true, start)
}

// call: keys=false is the plain call (the string only); with keys the eof value is a marker symbol.
func (c *rfsCaller) call(text []byte, keys bool, start int, pw bool) rfsObs {
	form := c.plain
	if keys {
		form = c.keyed
		if pw {
			form = c.keyedPW
		}
	}
	return c.callForm(form, text, keys, start)
}

func (c *rfsCaller) callForm(form slip.Object, text []byte, keys bool, start int) (o rfsObs) {
	defer func() {
		if r := recover(); r != nil {
			cls, msg := "", ""
			switch tr := r.(type) {
			case *slip.PartialPanic:
				o = rfsObs{kind: "err", partial: true, msg: tr.Message}
				return
			case *slip.Panic:
				msg = tr.Message
				if tr.Condition != nil {
					cls = string(tr.Condition.Hierarchy()[0])
				}
			case slip.Instance:
				cls = string(tr.Hierarchy()[0])
				msg = slip.ObjectString(tr)
			default:
				msg = fmt.Sprint(r)
			}
			switch {
			case cls == "parse-error":
				o = rfsObs{kind: "err", msg: msg}
			case strings.Contains(msg, "not terminated"):
				o = rfsObs{kind: "err", partial: true, msg: msg}
			case strings.Contains(msg, "bounding indices"):
				o = rfsObs{kind: "bounds", msg: msg}
			default:
				o = rfsObs{kind: "other", msg: cls + ": " + msg}
			}
		}
	}()
	c.s.Set(slip.Symbol("c02-text"), slip.String(text))
	c.s.Set(slip.Symbol("c02-pos"), slip.Fixnum(start))
	res := c.s.Eval(form, 0)
	vals, ok := res.(slip.Values)
	if !ok || len(vals) != 2 {
		return rfsObs{kind: "other", msg: "not two values: " + slip.ObjectString(res)}
	}
	num, ok := vals[1].(slip.Fixnum)
	if !ok {
		return rfsObs{kind: "other", msg: "position is not a fixnum: " + slip.ObjectString(res)}
	}
	if sym, isSym := vals[0].(slip.Symbol); isSym && keys && strings.EqualFold(string(sym), eofMark) {
		return rfsObs{kind: "eof", pos: int(num)}
	}
	return rfsObs{kind: "obj", obj: vals[0], pos: int(num)}
}

// rfsDesc: the description of a case in the replay file, the text first
type rfsDesc struct {
	Text       string         `json:"text"`
	Read       string         `json:"read_whole"`
	FormByForm map[string]any `json:"read_form_by_form"`
	Calls      []any          `json:"calls"`
}

type rfsCall struct {
	drop, start int
	end         int // 0: no :end (the harness never passes :end 0)
	keys, pw    bool
	obs         rfsObs
}

func (q rfsCall) gallina() (string, bool) {
	var obs string
	switch q.obs.kind {
	case "obj":
		t, ok := ctree(q.obs.obj)
		if !ok {
			return "", false
		}
		if !q.keys && q.obs.obj == nil {
			// the plain call gives nil both for the object nil and at the end of the text
			obs = fmt.Sprintf("BNil %d", q.obs.pos)
		} else {
			obs = fmt.Sprintf("BObj (%s) %d", t, q.obs.pos)
		}
	case "eof":
		obs = fmt.Sprintf("BEof %d", q.obs.pos)
	case "err":
		obs = "BErr " + common.GBool(q.obs.partial)
	case "bounds":
		obs = "BBounds"
	default:
		return "", false
	}
	end := "None"
	if q.end > 0 {
		end = fmt.Sprintf("(Some %d%%nat)", q.end)
	}
	return fmt.Sprintf("{| q_drop := %d; q_keys := %s; q_start := %d; q_end := %s; q_pw := %s; q_obs := %s |}",
		q.drop, common.GBool(q.keys), q.start, end, common.GBool(q.pw), obs), true
}

func (q rfsCall) desc() map[string]any {
	return map[string]any{"string_from": q.drop, "keys": q.keys, "start": q.start, "end": q.end, "preserve_whitespace": q.pw, "result": q.obs.show()}
}

// iterate reads text form by form in the given way; it returns what was collected and the calls made.
func (c *rfsCaller) iterate(text []byte, way int) (outcome, []rfsCall) {
	var got slip.Code
	var calls []rfsCall
	pos, bad := 0, ""
	for steps := 0; pos < len(text) && steps < 300; steps++ {
		var o rfsObs
		switch way {
		case 0:
			o = c.call(text[pos:], false, 0, false)
			calls = append(calls, rfsCall{drop: pos, obs: o})
			if o.kind == "obj" && o.obj == nil {
				// the object nil or the end of the text?  ask again with an eof value that cannot be read
				o2 := c.call(text[pos:], true, 0, false)
				calls = append(calls, rfsCall{drop: pos, keys: true, obs: o2})
				if o2.kind != "obj" {
					o = o2
				}
			}
			o.pos += pos
		case 1:
			o = c.call(text, true, pos, false)
			calls = append(calls, rfsCall{start: pos, keys: true, obs: o})
		default:
			o = c.call(text, true, pos, true)
			calls = append(calls, rfsCall{start: pos, keys: true, pw: true, obs: o})
		}
		switch o.kind {
		case "obj":
			got = append(got, o.obj)
			if o.pos <= pos || o.pos > len(text) {
				bad = fmt.Sprintf("other:position %d after a read from %d in a text of %d bytes", o.pos, pos, len(text))
			}
			pos = o.pos
		case "eof":
			pos = len(text)
		case "err":
			if o.partial {
				bad = "partial:0"
			} else {
				bad = "parse"
			}
		default:
			bad = "other:" + o.show()
		}
		if bad != "" {
			break
		}
	}
	return outcome{objs: got, pos: pos, err: bad}, calls
}

// sameObjsClass: as sameObjs, with the depth of an incomplete-text error left aside (read-from-string signals
// it as a plain error, the depth is not kept)
func sameObjsClass(a, b outcome) bool {
	cls := func(e string) string {
		if strings.HasPrefix(e, "partial:") {
			return "partial"
		}
		return e
	}
	a.err, b.err = cls(a.err), cls(b.err)
	if a.err != "" || b.err != "" {
		return a.err == b.err // a text with an error in it: the same kind of error; the forms in front of it are not delivered by Read
	}
	return sameObjs(a, b)
}

func gOutcomeClass(o outcome) (string, bool) {
	if strings.HasPrefix(o.err, "other:") {
		return "OErr (EPartial 999)", true // no progress / position out of range / bounds refused: equal to no read
	}
	return gOutcome(o)
}

func isASCII(b []byte) bool {
	for _, c := range b {
		if c > 127 {
			return false
		}
	}
	return true
}

var rfsForms = []string{"a", "12", "(a b)", `"s t"`, "|p q|", `#\x`, "'q", "#(1 2)", "#*10", "nil", "()", "`(a ,b)"}

func readFromPart(ctx *common.Ctx, s *slip.Scope, ws []byte) (terms []string, descs []any) {
	c := newCaller()
	isWS := func(b byte) bool { return b == ' ' || b == '\n' || b == '\t' || b == '\r' }
	nRandom, nEnumCoq := 130, 150
	if ctx.Thorough() {
		nRandom, nEnumCoq = 1500, 1500
	}
	seen := map[string]bool{}
	// at most 30 failing inputs of this part are written out, the rest is counted
	nViol := 0
	violate := func(what string, in, out, expect any) {
		nViol++
		if nViol <= 30 {
			ctx.Violate(what, in, out, expect)
		} else {
			ctx.Hist("partC-further-failing-inputs")
		}
	}
	// one text: the direct checks, and (toCoq) the case for the model
	do := func(text []byte, toCoq bool, origin string) {
		if seen[string(text)] {
			return
		}
		seen[string(text)] = true
		ascii := isASCII(text)
		whole := guard(func() (slip.Code, int) { return slip.Read(text, s), len(text) })
		if strings.HasPrefix(whole.err, "other:") {
			return
		}
		ways := []int{0, 1, 2}
		if !ascii {
			ways = []int{0} // positions are byte offsets, :start counts characters (known finding): the plain call only
		}
		var calls []rfsCall
		var iters []string
		diters := map[string]any{}
		for _, way := range ways {
			it, cs := c.iterate(text, way)
			calls = append(calls, cs...)
			ctx.Meta.Evaluations += len(cs)
			name := []string{"(read-from-string rest)", ":start pos", ":start pos :preserve-whitespace t"}[way]
			diters[name] = show(it)
			if g, ok := gOutcomeClass(it); ok {
				iters = append(iters, fmt.Sprintf("(%d%%N, %s)", way, g))
			} else {
				iters = append(iters, fmt.Sprintf("(%d%%N, OErr (EPartial 998))", way))
			}
			// ways 0 and 2 are right for every text in the unchanged code (theorem C02_read_from_string_as_written)
			if way != 1 && !sameObjsClass(whole, it) {
				violate("reading a text form by form with read-from-string, each call starting at the position the previous call reported, gives objects different from the text read whole",
					map[string]any{"text": string(text), "way": name}, show(it), show(whole))
			}
		}
		// the position rule on the first form: without :preserve-whitespace = with it, moved over white space only
		if ascii && len(text) > 0 {
			p := c.call(text, true, 0, true)
			q := c.call(text, false, 0, false)
			calls = append(calls, rfsCall{keys: true, pw: true, obs: p}, rfsCall{obs: q})
			ctx.Meta.Evaluations += 2
			if p.kind == "obj" && q.kind == "obj" {
				ok := p.pos <= q.pos && q.pos <= len(text)
				for i := p.pos; ok && i < q.pos; i++ {
					ok = isWS(text[i])
				}
				if ok && q.pos < len(text) && isWS(text[q.pos]) {
					ok = false
				}
				if !ok {
					violate("read-from-string: the position reported after the object is not the end of the object moved over the white space that follows it",
						map[string]any{"text": string(text), "call": "(read-from-string text)"}, q.show(),
						fmt.Sprintf("the object ends at %d (position with :preserve-whitespace t); the position must be reached from there over white space only and stop at the first other byte", p.pos))
				}
			} else if p.kind != q.kind && !(q.kind == "obj" && q.obj == nil && p.kind == "eof") {
				violate("read-from-string with and without :preserve-whitespace disagree on what the text holds",
					map[string]any{"text": string(text)}, q.show(), p.show())
			}
		}
		// :start/:end bounds: a window of the text (any 0 <= start <= end <= length, and one past it)
		if ascii && toCoq && len(text) > 1 {
			for k := 0; k < 2; k++ {
				e := 1 + ctx.Rng.Intn(len(text)+1)
				st := 0
				if k == 1 {
					st = ctx.Rng.Intn(e + 1)
					if st > len(text) {
						st = len(text)
					}
				}
				calls = append(calls, rfsCall{start: st, end: e, keys: true, obs: c.callEnd(text, st, e)})
				ctx.Meta.Evaluations++
			}
		}
		ctx.Hist("partC-" + origin)
		if n := len(text); n > 0 && isWS(text[n-1]) {
			ctx.Hist("partC-trailing-white-space")
		}
		if !toCoq {
			return
		}
		gw, ok := gOutcome(whole)
		var gcalls []string
		var dcalls []any
		for _, q := range calls {
			g, ok2 := q.gallina()
			if !ok2 {
				ok = false
				ctx.Violate("read-from-string gave something other than an object and a position, the eof value, a reader error or a bounds error",
					map[string]any{"text": string(text), "call": q.desc()}, q.obs.show(), nil)
				break
			}
			gcalls = append(gcalls, g)
			dcalls = append(dcalls, q.desc())
		}
		if !ok {
			return
		}
		terms = append(terms, fmt.Sprintf("{| r_text := %s; r_whole := %s;\n     r_calls := %s;\n     r_iters := %s |}",
			common.GBytes(text), gw, common.GList(gcalls), common.GList(iters)))
		descs = append(descs, rfsDesc{Text: string(text), Read: show(whole), FormByForm: diters, Calls: dcalls})
		if len(terms)%61 == 1 {
			ctx.Sample(map[string]any{"text": string(text), "read": show(whole), "form_by_form": diters})
		}
	}

	// (C1) enumerated: every ordered pair of forms x every separator (each white-space byte of the reader, a line
	// comment, a block comment) x every ending (nothing, each white-space byte, two of them), with a rotating
	// lead; all of them are checked on the implementation, nEnumCoq of them (drawn per run) also go to the model
	seps := []string{}
	for _, b := range ws {
		seps = append(seps, string([]byte{b}))
	}
	seps = append(seps, " ; c (\n", " #| c ) |# ")
	ends := []string{""}
	for _, b := range ws {
		ends = append(ends, string([]byte{b}))
	}
	ends = append(ends, "\n\n", " \t", "\r\n")
	leads := []string{"", " ", "\n", "; lead\n"}
	var enum []string
	k := 0
	for _, f1 := range rfsForms {
		for _, f2 := range rfsForms {
			for _, sep := range seps {
				for _, end := range ends {
					enum = append(enum, leads[k%len(leads)]+f1+sep+f2+end)
					k++
				}
			}
		}
	}
	pickCoq := map[int]bool{}
	for len(pickCoq) < nEnumCoq && len(pickCoq) < len(enum) {
		pickCoq[ctx.Rng.Intn(len(enum))] = true
	}
	for i, t := range enum {
		do([]byte(t), pickCoq[i], "enumerated")
	}
	// (C2) generated texts with white space of every kind in front and behind, some with bytes above 127
	gc := &gen{r: ctx.Rng, ascii: true}
	gn := &gen{r: ctx.Rng}
	wsRun := func() string {
		n := 1 + ctx.Rng.Intn(3)
		var b []byte
		for i := 0; i < n; i++ {
			b = append(b, ws[ctx.Rng.Intn(len(ws))])
		}
		return string(b)
	}
	for n := 0; n < nRandom; {
		g := gc
		if ctx.Rng.Chance(10) {
			g = gn
		}
		t := g.text()
		if ctx.Rng.Chance(70) {
			t += wsRun()
		}
		if ctx.Rng.Chance(30) {
			t = wsRun() + t
		}
		if ctx.Rng.Chance(10) {
			t += "; trailing comment"
		}
		if len(t) > 90 || seen[t] {
			continue
		}
		n++
		do([]byte(t), true, "generated")
	}
	ctx.Hist(fmt.Sprintf("partC-reader-white-space-bytes:%v", ws))
	return terms, descs
}
