// Package c02: the reader. (A) texts over the lexeme-preserving part of the grammar are read whole,
// one form at a time and from streams cut in prescribed places; the resulting objects go to Coq as
// canonical trees, to be compared with the machine model M (per delivery) and the abstract machine S.
// (B) texts over the whole token grammar are checked on the implementation alone: every way of
// cutting them gives the same objects, and a text cut inside a form is never read silently.
package c02

import (
	"encoding/json"
	"fmt"
	"io"
	"math/big"
	"os"
	"path/filepath"
	"strings"

	"github.com/ohler55/slip"
	"verifharness/common"
)

// chunkReader hands out the pieces it was given; eofWithData says whether the last piece comes
// together with io.EOF or is followed by (0, io.EOF).
type chunkReader struct {
	pieces      [][]byte
	i           int
	eofWithData bool
}

func (c *chunkReader) Read(p []byte) (int, error) {
	if c.i >= len(c.pieces) {
		return 0, io.EOF
	}
	n := copy(p, c.pieces[c.i])
	c.i++
	if c.i == len(c.pieces) && c.eofWithData {
		return n, io.EOF
	}
	return n, nil
}

type outcome struct {
	objs []slip.Object
	pos  int
	err  string // "" | "parse" | "partial:<depth>" | "other:..."
}

func guard(f func() (slip.Code, int)) (o outcome) {
	defer func() {
		if r := recover(); r != nil {
			switch tr := r.(type) {
			case *slip.PartialPanic:
				o.err = fmt.Sprintf("partial:%d", tr.Depth)
			default:
				cls, msg := "", ""
				if p, ok := r.(*slip.Panic); ok {
					msg = p.Message
					if p.Condition != nil {
						cls = string(p.Condition.Hierarchy()[0])
					}
				} else if inst, ok := r.(slip.Instance); ok {
					cls = string(inst.Hierarchy()[0])
				} else {
					msg = fmt.Sprint(r)
				}
				if cls == "parse-error" {
					o.err = "parse"
				} else {
					o.err = "other:" + cls + ":" + msg
				}
			}
		}
	}()
	code, pos := f()
	o.objs, o.pos = code, pos
	return
}

func cut(text []byte, cuts []int) [][]byte {
	var out [][]byte
	prev := 0
	for _, c := range cuts {
		out = append(out, text[prev:c])
		prev = c
	}
	return append(out, text[prev:])
}

// ---- canonical trees ----
func ctree(o slip.Object) (string, bool) {
	switch t := o.(type) {
	case nil:
		return "CNil", true
	case slip.Symbol:
		return "CSym " + common.GBytes([]byte(t)), true
	case slip.Fixnum:
		return fmt.Sprintf("CInt (%d)%%Z", int64(t)), true
	case *slip.Bignum:
		return "CInt (" + (*big.Int)(t).String() + ")%Z", true
	case slip.Float, *slip.Ratio:
		// a token resolved to a float or a ratio: the model keeps the lexeme of a token and does not resolve it
		return "CNum", true
	case slip.String:
		return "CStr " + common.GBytes([]byte(t)), true
	case slip.Character:
		return fmt.Sprintf("CChr %d%%N", int32(t)), true
	case slip.List:
		var xs []string
		n := len(t)
		var tail string
		if n > 0 {
			if tl, ok := t[n-1].(slip.Tail); ok {
				s, ok2 := ctree(tl.Value)
				if !ok2 {
					return "", false
				}
				tail = s
				n--
			}
		}
		for _, e := range t[:n] {
			s, ok := ctree(e)
			if !ok {
				return "", false
			}
			xs = append(xs, s)
		}
		if tail != "" {
			return "CDot " + common.GList(xs) + " (" + tail + ")", true
		}
		return "CList " + common.GList(xs), true
	case *slip.Vector:
		var xs []string
		for _, e := range t.AsList() {
			s, ok := ctree(e)
			if !ok {
				return "", false
			}
			xs = append(xs, s)
		}
		return "CVec " + common.GList(xs), true
	case *slip.BitVector:
		var bs []byte
		for i := uint(0); i < t.Len; i++ {
			if t.At(i) {
				bs = append(bs, '1')
			} else {
				bs = append(bs, '0')
			}
		}
		return "CBits " + common.GBytes(bs), true
	case slip.Funky:
		if o == slip.True {
			return "CTrue", true
		}
		w := map[string]string{"*cl.Quote": "WQuote", "*cl.Function": "WFunction", "*cl.Backquote": "WBackquote", "*cl.Comma": "WComma", "*cl.CommaAt": "WCommaAt"}[fmt.Sprintf("%T", o)]
		args := t.GetArgs()
		if w == "" || len(args) != 1 {
			return "", false
		}
		s, ok := ctree(args[0])
		if !ok {
			return "", false
		}
		return "CWrap " + w + " (" + s + ")", true
	}
	if o == slip.True {
		return "CTrue", true
	}
	return "", false
}

func gOutcome(o outcome) (string, bool) {
	var xs []string
	for _, ob := range o.objs {
		s, ok := ctree(ob)
		if !ok {
			return "", false
		}
		xs = append(xs, "("+s+")")
	}
	switch {
	case o.err == "":
		return fmt.Sprintf("OOk %s %d", common.GList(xs), o.pos), true
	case o.err == "parse":
		return "OErr EParse", true
	case strings.HasPrefix(o.err, "partial:"):
		return "OErr (EPartial " + strings.TrimPrefix(o.err, "partial:") + ")", true
	}
	return "OErr EParse", false
}

func show(o outcome) string {
	if o.err != "" {
		return "!" + o.err
	}
	var xs []string
	for _, ob := range o.objs {
		xs = append(xs, slip.ObjectString(ob))
	}
	return fmt.Sprintf("%s @%d", strings.Join(xs, " "), o.pos)
}

// ---- text generators ----
type gen struct {
	r     *common.Rng
	full  bool // whole token grammar (part B)
	ascii bool // no bytes above 127 (part C: positions in characters = positions in bytes)
}

func (g *gen) sym() string {
	letters := "abcdefghijklmnopqrsuvwxyz"
	n := 1 + g.r.Intn(5)
	var b []byte
	for i := 0; i < n; i++ {
		if i > 0 && g.r.Chance(15) {
			b = append(b, "-0123456789*+"[g.r.Intn(13)])
		} else {
			b = append(b, letters[g.r.Intn(len(letters))])
		}
	}
	s := string(b)
	if s == "nil" || s == "t" {
		return "x" + s
	}
	return s
}

func (g *gen) str() string {
	n := g.r.Intn(7)
	var b strings.Builder
	b.WriteByte('"')
	for i := 0; i < n; i++ {
		switch x := g.r.Intn(20); {
		case x == 0:
			b.WriteString(`\"`)
		case x == 1:
			b.WriteString(`\\`)
		case x == 2:
			b.WriteString(`\n`)
		case x == 3:
			b.WriteString(`\t`)
		case x == 4 && !g.ascii:
			b.WriteString(`é`)
		case x == 5 && !g.ascii:
			b.WriteString("é")
		case x == 6:
			b.WriteString(" ")
		case x == 7:
			b.WriteString(";")
		case x == 8:
			b.WriteString("(")
		case x == 9:
			b.WriteString(`\U0001F600`)
		default:
			b.WriteByte("abcxyz019"[g.r.Intn(9)])
		}
	}
	b.WriteByte('"')
	return b.String()
}

func (g *gen) atom() string {
	x := g.r.Intn(100)
	switch {
	case x < 28:
		return g.sym()
	case x < 42:
		z := g.r.Intn(2000) - 300
		if g.r.Chance(8) {
			return fmt.Sprintf("%d%d", g.r.Next()>>2, g.r.Next()>>2) // bignum
		}
		return fmt.Sprint(z)
	case x < 47:
		return common.Pick(g.r, []string{"t", "nil", "T", "NIL"})
	case x < 62:
		return g.str()
	case x < 68:
		if g.ascii {
			return "|" + common.Pick(g.r, []string{"a b", "Foo", "x(y", "", "semi;colon", "q  r"}) + "|"
		}
		return "|" + common.Pick(g.r, []string{"a b", "Foo", "x(y", "", "semi;colon", "é"}) + "|"
	case x < 75:
		return `#\` + string("abcxyz(;09"[g.r.Intn(10)])
	case x < 81:
		return common.Pick(g.r, []string{"#b101", "#o17", "#xFF", "#x-1a", "#3r12", "#36rz", "#B11", "#X0f"})
	case x < 84:
		return common.Pick(g.r, []string{"#*101", "#*", "#*0011"})
	}
	if g.full {
		return common.Pick(g.r, []string{"1.5", "-2.25e3", "1.0s0", "2.5d0", "3.0f2", "1/2", "-3/4", "#\\Space", "#\\Newline", "#\\u0041",
			"1.", ".5x", "+", "-", "1+", "@2024-01-02", "a.b", "1e5", "12/0", "#c(1 2)", "#2A((1 2) (3 4))", "#0A7", "#1A(1 2)"})
	}
	return g.sym()
}

func (g *gen) form(depth int) string {
	if depth <= 0 || g.r.Chance(45) {
		return g.atom()
	}
	x := g.r.Intn(100)
	items := func() string {
		n := g.r.Intn(4)
		var xs []string
		for i := 0; i < n; i++ {
			xs = append(xs, g.form(depth-1))
		}
		return strings.Join(xs, g.sep())
	}
	switch {
	case x < 55:
		return "(" + items() + ")"
	case x < 63:
		return "(" + g.form(depth-1) + " " + g.form(depth-1) + " . " + g.atomNoNil() + ")"
	case x < 73:
		return "#(" + items() + ")"
	case x < 83:
		// a reader macro applies to whatever object follows it: a token, t / nil, a string, a character, an integer
		// in another radix, a bit vector, a list, a vector, or an object that itself has a prefix
		switch g.r.Intn(6) {
		case 0:
			return "'" + g.sym()
		case 1, 2:
			return common.Pick(g.r, []string{"'", "`", "''", "'`", "' "}) + g.atom()
		case 3:
			return "'#(" + items() + ")"
		default:
			return "'(" + items() + ")"
		}
	case x < 88:
		return "#'" + g.sym()
	case x < 94:
		if g.r.Chance(30) {
			return "`(" + g.sym() + " ," + g.atom() + " ,@" + g.sym() + " '" + g.atom() + ")"
		}
		return "`(" + g.sym() + " ," + g.sym() + " ,@" + g.sym() + ")"
	default:
		return "(" + items() + ")"
	}
}

func (g *gen) atomNoNil() string {
	for {
		a := g.atom()
		if !strings.EqualFold(a, "nil") {
			return a
		}
	}
}

func (g *gen) sep() string {
	switch x := g.r.Intn(20); {
	case x < 13:
		return " "
	case x < 15:
		return "\n"
	case x < 16:
		return "  \t"
	case x < 18:
		return " ; comment ( \"\n"
	default:
		return " #| block ) | # |# "
	}
}

func (g *gen) text() string {
	n := 1 + g.r.Intn(4)
	var xs []string
	for i := 0; i < n; i++ {
		xs = append(xs, g.form(3))
	}
	s := strings.Join(xs, g.sep())
	if g.r.Chance(30) {
		s += g.sep()
	}
	if g.r.Chance(15) {
		s = g.sep() + s
	}
	// truncated texts: cut anywhere (inside a token, a string, an escape, a list, after a prefix such as ' or #')
	// or end in a dangling reader prefix (added after seeded change C02-4 was missed)
	switch x := g.r.Intn(100); {
	case x < 18 && len(s) > 1:
		s = s[:1+g.r.Intn(len(s)-1)]
	case x < 26:
		s += common.Pick(g.r, []string{" '", " `", " #'", "'", " `,", " (a '", " '  ", "\n'\n"})
	}
	return s
}

func sameObjs(a, b outcome) bool {
	if a.err != b.err || len(a.objs) != len(b.objs) {
		return false
	}
	for i := range a.objs {
		if slip.ObjectString(a.objs[i]) != slip.ObjectString(b.objs[i]) {
			return false
		}
		if fmt.Sprintf("%T", a.objs[i]) != fmt.Sprintf("%T", b.objs[i]) {
			return false
		}
	}
	return true
}

func Run(ctx *common.Ctx) {
	s := slip.NewScope()
	nA, nB := 260, 300
	if ctx.Thorough() {
		nA, nB = 3000, 4000
	}
	// the translator first; when it fails (recorded, reported without a failing input) the model cannot be
	// instantiated, but everything that is decided on the implementation alone still runs
	tablesOK, found := writeTablesSafe(ctx)
	ws := readerWhitespace(found)
	var terms []string
	var descs []any
	distinct := map[string]bool{}
	ga := &gen{r: ctx.Rng}
	for len(terms) < nA {
		text := []byte(ga.text())
		if len(text) > 90 || distinct[string(text)] {
			continue
		}
		distinct[string(text)] = true
		whole := guard(func() (slip.Code, int) { return slip.Read(text, s), len(text) })
		one := guard(func() (slip.Code, int) { return slip.ReadOne(text, s) })
		gw, ok1 := gOutcome(whole)
		g1, ok2 := gOutcome(one)
		if !ok1 || !ok2 {
			ctx.Violate("reader produced an object outside the expected kinds or an unexpected condition", string(text), show(whole)+" / "+show(one), nil)
			continue
		}
		// streams: a few ways of cutting, both end-of-file styles
		var gstreams []string
		var dstreams []any
		addStream := func(cuts []int, eofWithData, oneForm bool) {
			pieces := cut(text, cuts)
			o := guard(func() (slip.Code, int) {
				return slip.ReadStream(&chunkReader{pieces: pieces, eofWithData: eofWithData}, s, oneForm)
			})
			g, ok := gOutcome(o)
			if !ok {
				ctx.Violate("stream read produced an unexpected condition", map[string]any{"text": string(text), "cuts": cuts}, show(o), nil)
				return
			}
			if !tablesOK && !oneForm && !sameObjs(whole, o) {
				ctx.Violate("a stream cut into pieces reads differently from the same text read whole",
					map[string]any{"text": string(text), "cuts": cuts, "eof_with_last_piece": eofWithData}, show(o), show(whole))
			}
			var blocks []string
			for _, p := range pieces {
				blocks = append(blocks, common.GBytes(p))
			}
			if !eofWithData {
				blocks = append(blocks, "[]")
			}
			gstreams = append(gstreams, fmt.Sprintf("(%s, %s, %s)", common.GList(blocks), common.GBool(oneForm), g))
			dstreams = append(dstreams, map[string]any{"cuts": cuts, "eof_with_last_piece": eofWithData, "one": oneForm, "result": show(o)})
			ctx.Hist(fmt.Sprintf("stream-pieces:%d", len(pieces)))
		}
		for k := 0; k < 6; k++ {
			var cuts []int
			switch k {
			case 0: // one random cut
				if len(text) > 1 {
					cuts = []int{1 + ctx.Rng.Intn(len(text)-1)}
				}
			case 1: // fixed chunk size
				sz := 1 + ctx.Rng.Intn(7)
				for c := sz; c < len(text); c += sz {
					cuts = append(cuts, c)
				}
			default: // random multi-cut
				for c := 1; c < len(text); c++ {
					if ctx.Rng.Chance(18) {
						cuts = append(cuts, c)
					}
				}
			}
			addStream(cuts, ctx.Rng.Bool(), k == 4)
		}
		term := fmt.Sprintf("{| k_text := %s; k_whole := %s; k_one := %s;\n     k_streams := %s |}", common.GBytes(text), gw, g1, common.GList(gstreams))
		terms = append(terms, term)
		d := map[string]any{"text": string(text), "read": show(whole), "read_one": show(one), "streams": dstreams}
		descs = append(descs, d)
		ctx.Meta.Evaluations += 2 + len(gstreams)
		if len(terms)%53 == 1 {
			ctx.Sample(map[string]any{"text": string(text), "read": show(whole), "read_one": show(one)})
		}
	}
	// (B) implementation only, whole token grammar
	gb := &gen{r: ctx.Rng, full: true}
	nb := 0
	// comments first, every run: a line comment and a block comment in each place a comment can stand (inside a
	// list, between top-level forms, first, last without a newline, after a prefix), with text in the comment
	// that would read as code; each is cut at every position below
	fixed := append([]string(nil), commentTexts...)
	for nb < nB {
		var text []byte
		if len(fixed) > 0 {
			text, fixed = []byte(fixed[0]), fixed[1:]
			ctx.Hist("partB-comment-texts")
		} else {
			text = []byte(gb.text())
			if ctx.Rng.Chance(12) { // a comment in a generated text, wherever the generator put none
				text = append(text, common.Pick(ctx.Rng, []string{" ; x (y\n z", "\n;;; \"q\n(r)", " #| u ) |# v", ";w"})...)
			}
		}
		if len(text) > 120 {
			continue
		}
		if strings.Contains(string(text), ";") || strings.Contains(string(text), "#|") {
			ctx.Hist("partB-texts-with-comment")
		}
		nb++
		// reader configuration: mostly the default, sometimes another *read-base* / float format
		s := s
		conf := "default"
		if ctx.Rng.Chance(35) {
			s = slip.NewScope()
			base := []int{2, 8, 10, 16, 36}[ctx.Rng.Intn(5)]
			ff := []string{"single-float", "short-float", "double-float", "long-float"}[ctx.Rng.Intn(4)]
			s.Let(slip.Symbol("*read-base*"), slip.Fixnum(base))
			s.Let(slip.Symbol("*read-default-float-format*"), slip.Symbol(ff))
			conf = fmt.Sprintf("read-base=%d float=%s", base, ff)
		}
		ctx.Hist("partB-conf:" + strings.SplitN(conf, " ", 2)[0])
		whole := guard(func() (slip.Code, int) { return slip.Read(text, s), len(text) })
		if strings.HasPrefix(whole.err, "other:") {
			ctx.Violate("reading a text raised something other than a parse error or partial", string(text), show(whole), nil)
			continue
		}
		check := func(cuts []int, eofWithData bool) {
			o := guard(func() (slip.Code, int) {
				return slip.ReadStream(&chunkReader{pieces: cut(text, cuts), eofWithData: eofWithData}, s)
			})
			ctx.Meta.Evaluations++
			if !sameObjs(whole, o) {
				ctx.Violate("a stream cut into pieces reads differently from the same text read whole",
					map[string]any{"text": string(text), "cuts": cuts, "eof_with_last_piece": eofWithData}, show(o), show(whole))
			}
		}
		// the other entry points: objects pushed on a channel, objects handed to a callback, and
		// one form at a time from the position the previous form ended at
		{
			var cuts []int
			for c := 1; c < len(text); c++ {
				if ctx.Rng.Chance(20) {
					cuts = append(cuts, c)
				}
			}
			push := guard(func() (slip.Code, int) {
				ch := make(chan slip.Object, 1000)
				slip.ReadStreamPush(&chunkReader{pieces: cut(text, cuts), eofWithData: ctx.Rng.Bool()}, s, ch)
				close(ch)
				var code slip.Code
				for o := range ch {
					code = append(code, o)
				}
				return code, 0
			})
			each := guard(func() (slip.Code, int) {
				col := &collector{}
				slip.ReadStreamEach(&chunkReader{pieces: cut(text, cuts), eofWithData: ctx.Rng.Bool()}, s, col)
				return col.code, 0
			})
			ctx.Meta.Evaluations += 2
			if whole.err == "" {
				if !sameObjs(whole, push) {
					ctx.Violate("ReadStreamPush over a cut stream delivers objects different from the text read whole",
						map[string]any{"text": string(text), "cuts": cuts, "conf": conf}, show(push), show(whole))
				}
				if !sameObjs(whole, each) {
					ctx.Violate("ReadStreamEach over a cut stream delivers objects different from the text read whole",
						map[string]any{"text": string(text), "cuts": cuts, "conf": conf}, show(each), show(whole))
				}
				// one form at a time
				var got slip.Code
				pos, bad := 0, ""
				for steps := 0; pos < len(text) && steps < 200; steps++ {
					o := guard(func() (slip.Code, int) { return slip.ReadOne(text[pos:], s) })
					if o.err != "" {
						bad = o.err
						break
					}
					if len(o.objs) == 0 {
						break
					}
					got = append(got, o.objs...)
					if o.pos <= 0 {
						bad = "no progress"
						break
					}
					pos += o.pos
				}
				ctx.Meta.Evaluations++
				it := outcome{objs: got, err: bad}
				if !sameObjs(whole, it) {
					ctx.Violate("reading one form at a time, each from where the previous form ended, gives objects different from the text read whole",
						map[string]any{"text": string(text), "conf": conf}, show(it), show(whole))
				}
			}
		}
		if len(text) <= 64 {
			for c := 1; c < len(text); c++ {
				check([]int{c}, c%2 == 0)
			}
		}
		for sz := 1; sz <= 17; sz += 1 + ctx.Rng.Intn(4) {
			var cuts []int
			for c := sz; c < len(text); c += sz {
				cuts = append(cuts, c)
			}
			check(cuts, ctx.Rng.Bool())
		}
		for k := 0; k < 3; k++ {
			var cuts []int
			for c := 1; c < len(text); c++ {
				if ctx.Rng.Chance(15) {
					cuts = append(cuts, c)
				}
			}
			check(cuts, ctx.Rng.Bool())
		}
	}
	ctx.Hist(fmt.Sprintf("partB-texts:%d", nb))
	ctx.Meta.DistinctNontrivial = len(distinct)
	ctx.Meta.Rule = "(A) grammar-generated texts (<= 90 bytes; symbols, integers, bignums, t/nil, strings with escapes and non-ASCII, |symbols|, #\\c, #b #o #x #nr, #*, lists, dotted lists, #( ), quote, #', backquote/comma, ; and #| |# comments) read by Read, ReadOne and 6 ReadStream deliveries each (one cut, fixed chunk size 1..7, random multi-cuts, both end-of-file styles, one of them in one-form mode), all compared with the models in Coq; (B) texts over the whole token grammar (floats of every format, ratios, named and \\u characters, times, #c, #nA): every single cut of texts <= 64 bytes, chunk sizes 1..17 and random multi-cuts must read like the whole text; 17 fixed texts with ; and #| |# comments in every place a comment can stand come first, and 12 % of the generated texts get a comment appended; when the table translator fails the run goes on without the model: parts A-C compare the implementation with itself; (C) cl:read-from-string: every ordered pair of 12 forms x 6 separators (each white-space byte of the reader's value-mode table, a line comment, a block comment) x 8 endings (nothing, each white-space byte, three two-byte runs) with a rotating lead (6912 texts) and generated ASCII texts (10 % with bytes above 127, plain call only) with runs of the reader's white-space bytes in front and behind are read form by form in three ways - (read-from-string rest), :start pos, :start pos :preserve-whitespace t - from the reported positions; the first and third must collect the objects of Read on the whole text, the position without :preserve-whitespace must be the position with it moved over white space only; all calls of the generated texts and of 150 enumerated ones drawn per run (plus :start/:end windows) are compared with the model of the function and, inside the guard, with the rule; distinct = distinct texts of part A"
	header := "From Coq Require Import ZArith.\nFrom C02 Require Import Model Spec Corr.\nFrom GenC02 Require Import Tables.\n"
	footer := "Definition res := Eval vm_compute in check_all tables esc cases.\nPrint res.\nDefinition gcount := Eval vm_compute in guard_count cases.\nPrint gcount.\n"
	// (C) cl:read-from-string: the reported position, and reading a text form by form from it
	rterms, rdescs := readFromPart(ctx, s, ws)
	if tablesOK {
		ctx.WriteShards("cases", header, "case", footer, terms, descs, 16)
		rfooter := "Definition res := Eval vm_compute in check_rall tables esc cases.\nPrint res.\nDefinition gcount := Eval vm_compute in rguard_count cases.\nPrint gcount.\n"
		ctx.WriteShards("rfs", header, "rcase", rfooter, rterms, rdescs, 8)
	}
	replayKnown(ctx, s)
	ctx.ReplayKnownLisp()
}

// witnesses of known / fixed findings: a text, a delivery and what must come out
type witness struct {
	Text     string `json:"text"`
	Cuts     []int  `json:"cuts"`
	Kind     string `json:"kind"` // stream-equals-whole | one-pos | count
	Pos      int    `json:"pos"`
	Count    int    `json:"count"`
	Observed string `json:"observed"`
}

func replayKnown(ctx *common.Ctx, s *slip.Scope) {
	for _, id := range common.SortedKeys(ctx.Known) {
		var w witness
		if err := json.Unmarshal(ctx.Known[id], &w); err != nil || w.Kind == "" {
			continue
		}
		text := []byte(w.Text)
		whole := guard(func() (slip.Code, int) { return slip.Read(text, s), len(text) })
		switch w.Kind {
		case "stream-equals-whole":
			bad, got := false, ""
			for _, eof := range []bool{true, false} {
				o := guard(func() (slip.Code, int) {
					return slip.ReadStream(&chunkReader{pieces: cut(text, w.Cuts), eofWithData: eof}, s)
				})
				if !sameObjs(whole, o) {
					bad, got = true, show(o)
				}
			}
			ctx.KnownResult(id, bad, got)
		case "one-pos":
			o := guard(func() (slip.Code, int) { return slip.ReadOne(text, s) })
			ctx.KnownResult(id, o.pos != w.Pos, show(o))
		case "count":
			ctx.KnownResult(id, whole.err != "" || len(whole.objs) != w.Count, show(whole))
		}
	}
}

// commentTexts: part B reads each of these whole and cut at every single position, in every chunk size and
// at random places (added for the round-3 seed c02-7: a line comment lost at a block boundary)
var commentTexts = []string{
	"(a ; not| code\n b)",
	"1 ;2\n3",
	"(a ; b) c\n d)",
	"; first (line\n(x y)",
	"(x y) ; last, no newline",
	"(x ;; two ; three \" |\n y)",
	"'; quoted\n a",
	"(a ;c\r\n b)",
	"#(1 ; in a vector )\n 2)",
	"(a #| block ) ; |# b)",
	"#| first |# (a b)",
	"(a b) #| last |#",
	"(a #| x | # y |# b) c",
	"a ; one\n ; two\n b",
	"(\"s;not\" ; real \"\n t2)",
	"(a ;\n b)",
	"(a ;(\n)",
}

type collector struct{ code slip.Code }

func (c *collector) Call(s *slip.Scope, args slip.List, depth int) slip.Object {
	c.code = append(c.code, args[0])
	return nil
}

var _ = os.Getenv
var _ = filepath.Join
