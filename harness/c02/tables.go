package c02

import (
	"fmt"
	"go/ast"
	"go/constant"
	"go/parser"
	"go/token"
	"os"
	"path/filepath"
	"strconv"
	"strings"

	"verifharness/common"
)

// the translator: the mode tables and escByteMap are constant string expressions in code.go; they are
// re-read from the source on every run and written as Gallina lists.
var tableNames = map[string]string{
	"valueMode": "MValue", "commentMode": "MComment", "tokenMode": "MToken", "stringMode": "MString", "symbolMode": "MSymbol",
	"escMode": "MEsc", "runeMode": "MRune", "sharpMode": "MSharp", "charMode": "MChar", "intMode": "MInt",
	"sharpNumMode": "MSharpNum", "mustArrayMode": "MMustArray", "bitVectorMode": "MBitVector",
	"blockCommentMode": "MBlockComment", "blockEndMode": "MBlockEnd",
}

func constString(e ast.Expr) (string, bool) {
	switch t := e.(type) {
	case *ast.BasicLit:
		if t.Kind == token.STRING {
			s, err := strconv.Unquote(t.Value)
			return s, err == nil
		}
	case *ast.BinaryExpr:
		if t.Op == token.ADD {
			a, ok1 := constString(t.X)
			b, ok2 := constString(t.Y)
			return a + b, ok1 && ok2
		}
	case *ast.ParenExpr:
		return constString(t.X)
	}
	if ce, ok := e.(*ast.CallExpr); ok && len(ce.Args) == 1 {
		return constString(ce.Args[0])
	}
	return "", false
}

// writeTablesSafe runs the translator; when the source no longer has the layout it understands (a table
// renamed, removed, computed) it records the reason and reports false: the model cannot be instantiated on
// this run, the comparisons that need no model still run.
func writeTablesSafe(ctx *common.Ctx) (ok bool, found map[string]string) {
	defer func() {
		if r := recover(); r != nil {
			ok = false
			msg := fmt.Sprint(r)
			ctx.Meta.Notes = append(ctx.Meta.Notes, msg)
			if ctx.Meta.Extra == nil {
				ctx.Meta.Extra = map[string]any{}
			}
			ctx.Meta.Extra["translator_error"] = msg
			ctx.Meta.Extra["table_suspects"] = []string{msg}
			fmt.Fprintln(os.Stderr, msg)
		}
	}()
	found = writeTables(ctx)
	return true, found
}

// readerWhitespace: the bytes the reader skips in value mode (action skipByte 'a' or skipNewline 'k' of
// valueMode), read off the regenerated table; the four bytes of the current reader when there is no table.
func readerWhitespace(found map[string]string) []byte {
	tbl := found["valueMode"]
	if len(tbl) < 256 {
		return []byte{' ', '\n', '\t', '\r'}
	}
	var ws []byte
	for i := 0; i < 256; i++ {
		if tbl[i] == 'a' || tbl[i] == 'k' {
			ws = append(ws, byte(i))
		}
	}
	return ws
}

func writeTables(ctx *common.Ctx) map[string]string {
	fset := token.NewFileSet()
	f, err := parser.ParseFile(fset, common.RepoDir()+"/code.go", nil, 0)
	if err != nil {
		panic("c02 translator: cannot parse code.go: " + err.Error())
	}
	found := map[string]string{}
	for _, d := range f.Decls {
		gd, ok := d.(*ast.GenDecl)
		if !ok || (gd.Tok != token.CONST && gd.Tok != token.VAR) {
			continue
		}
		for _, sp := range gd.Specs {
			vs := sp.(*ast.ValueSpec)
			for i, n := range vs.Names {
				if i < len(vs.Values) {
					if s, ok := constString(vs.Values[i]); ok {
						found[n.Name] = s
					}
				}
			}
		}
	}
	_ = constant.MakeString
	var sb strings.Builder
	sb.WriteString("(* regenerated from /repo/code.go on every run by harness/c02 *)\nFrom C02 Require Import Model.\nOpen Scope N_scope.\n")
	var cases []string
	for goName, m := range tableNames {
		tbl, ok := found[goName]
		if !ok || len(tbl) < 256 {
			// without the table the model cannot be instantiated: stop (a harness failure, not a failing input)
			panic(fmt.Sprintf("c02 translator: mode table %s not found in code.go (or shorter than 256 bytes: %d); the translator must be adapted to the new source layout", goName, len(tbl)))
		}
		var xs []string
		for i := 0; i < 256; i++ {
			xs = append(xs, fmt.Sprint(tbl[i]))
		}
		fmt.Fprintf(&sb, "Definition t_%s : list N := [%s].\n", m, strings.Join(xs, ";"))
		cases = append(cases, fmt.Sprintf("  | %s => t_%s", m, m))
	}
	sb.WriteString("Definition tables : mode -> list N := fun m => match m with\n" + strings.Join(sortStrings(cases), "\n") + "\n  end.\n")
	em, ok := found["escByteMap"]
	if !ok || len(em) < 256 {
		panic(fmt.Sprintf("c02 translator: escByteMap not found in code.go (%d bytes); the translator must be adapted to the new source layout", len(em)))
	}
	var xs []string
	for i := 0; i < 256; i++ {
		xs = append(xs, fmt.Sprint(em[i]))
	}
	fmt.Fprintf(&sb, "Definition esc_table : list N := [%s].\nDefinition esc (b : N) : N := nth (N.to_nat b) esc_table 46.\n", strings.Join(xs, ";"))
	if err := os.WriteFile(filepath.Join(ctx.OutDir, "Tables.v"), []byte(sb.String()), 0o644); err != nil {
		panic(err)
	}
	return found
}

func sortStrings(xs []string) []string {
	for i := 1; i < len(xs); i++ {
		for j := i; j > 0 && xs[j] < xs[j-1]; j-- {
			xs[j], xs[j-1] = xs[j-1], xs[j]
		}
	}
	return xs
}
