// Package c05: exact arithmetic. Every case binds fresh operand objects to variables, applies one
// operator, and records the result object(s) by representation together with the operands afterwards.
package c05

import (
	"fmt"
	"math/big"
	"strings"
	"time"

	"github.com/ohler55/slip"
	"verifharness/common"
)

type opDef struct {
	lisp  string
	g     string
	minA  int
	maxA  int
	ints  bool // integer operands only
	multi bool // returns two values
}

var ops = []opDef{
	{"+", "OAdd", 1, 3, false, false}, {"-", "OSub", 1, 3, false, false}, {"*", "OMul", 1, 3, false, false},
	{"/", "ODiv", 1, 3, false, false},
	{"floor", "(ORound Floor)", 1, 2, false, true}, {"ceiling", "(ORound Ceiling)", 1, 2, false, true},
	{"truncate", "(ORound Truncate)", 1, 2, false, true}, {"round", "(ORound Round)", 1, 2, false, true},
	{"mod", "OMod", 2, 2, true, false}, {"rem", "ORem", 2, 2, true, false},
	{"abs", "OAbs", 1, 1, false, false}, {"1+", "OInc", 1, 1, false, false}, {"1-", "ODec", 1, 1, false, false},
	{"gcd", "OGcd", 1, 3, true, false}, {"lcm", "OLcm", 1, 3, true, false},
	{"<", "(OCmp CLt)", 2, 3, false, false}, {"<=", "(OCmp CLe)", 2, 3, false, false},
	{">", "(OCmp CGt)", 2, 3, false, false}, {">=", "(OCmp CGe)", 2, 3, false, false},
	{"=", "(OCmp CEq)", 2, 3, false, false},
	{"logand", "(OBit BAnd)", 0, 4, true, false}, {"logior", "(OBit BOr)", 0, 4, true, false},
	{"logxor", "(OBit BXor)", 0, 4, true, false}, {"lognot", "OLognot", 1, 1, true, false},
	{"max", "(OExt true)", 1, 4, false, false}, {"min", "(OExt false)", 1, 4, false, false},
	{"isqrt", "OIsqrt", 1, 1, true, false},
}

func gVal(o slip.Object) (string, string) {
	switch t := o.(type) {
	case slip.Fixnum:
		return fmt.Sprintf("VFix (%d)", int64(t)), fmt.Sprintf("fixnum %d", int64(t))
	case *slip.Bignum:
		s := (*big.Int)(t).String()
		return "VBig (" + s + ")", "bignum " + s
	case *slip.Ratio:
		n, d := (*big.Rat)(t).Num().String(), (*big.Rat)(t).Denom().String()
		return "VRat (" + n + ") (" + d + ")", "ratio " + n + "/" + d
	case slip.SingleFloat, slip.DoubleFloat, *slip.LongFloat:
		return "VInexact", "float " + slip.ObjectString(o)
	}
	return "VInexact", "other " + slip.ObjectString(o)
}

func pow2(n uint) *big.Int { return new(big.Int).Lsh(big.NewInt(1), n) }

func Run(ctx *common.Ctx) {
	scope := slip.NewScope()
	// boundary grid of the property
	var grid []*big.Int
	add := func(b *big.Int) { grid = append(grid, b, new(big.Int).Neg(b)) }
	for _, s := range []int64{0, 1, 2, 3, 7, 10} {
		add(big.NewInt(s))
	}
	for _, e := range []uint{31, 32, 62, 63, 64} {
		add(pow2(e))
		add(new(big.Int).Sub(pow2(e), big.NewInt(1)))
		add(new(big.Int).Add(pow2(e), big.NewInt(1)))
	}
	randInt := func() *big.Int {
		switch ctx.Rng.Intn(10) {
		case 0, 1, 2, 3:
			return common.Pick(ctx.Rng, grid)
		case 4, 5:
			return big.NewInt(int64(ctx.Rng.Intn(41)) - 20)
		case 6:
			return big.NewInt(int64(ctx.Rng.Next()))
		default:
			bits := 1 + ctx.Rng.Intn(200)
			z := new(big.Int)
			for i := 0; i < bits; i += 60 {
				z.Lsh(z, 60)
				z.Or(z, big.NewInt(int64(ctx.Rng.Next()>>4)))
			}
			z.Rsh(z, uint(ctx.Rng.Intn(60)))
			if ctx.Rng.Bool() {
				z.Neg(z)
			}
			return z
		}
	}
	// operands are rationals; an integer-valued one is written as an integer literal, the others as
	// reduced ratios; with some probability a small integer is wrapped so that it arrives as a bignum object
	show := func(r *big.Rat) string {
		if r.IsInt() {
			z := r.Num()
			if z.IsInt64() && ctx.Rng.Chance(6) {
				return fmt.Sprintf("(+ %s 100000000000000000000 -100000000000000000000)", z.String())
			}
			return z.String()
		}
		return r.Num().String() + "/" + r.Denom().String()
	}
	randRat := func(intsOnly bool) *big.Rat {
		z := randInt()
		if intsOnly || ctx.Rng.Chance(70) {
			return new(big.Rat).SetInt(z)
		}
		d := randInt()
		d.Abs(d)
		if d.Sign() == 0 {
			d.SetInt64(3)
		}
		return new(big.Rat).SetFrac(z, d)
	}
	small := func() *big.Rat { return new(big.Rat).SetInt64(int64(ctx.Rng.Intn(13)) - 6) }
	// an operand related to a: equal, negated, neighbours, multiples, exact quotients, halves, the
	// integers around a ratio - the places where sign handling, ties and exact division live
	related := func(a *big.Rat, intsOnly bool) *big.Rat {
		r := new(big.Rat)
		k := small()
		if k.Sign() == 0 {
			k.SetInt64(2)
		}
		switch ctx.Rng.Intn(12) {
		case 0:
			r.Set(a)
		case 1:
			r.Neg(a)
		case 2:
			r.Add(a, big.NewRat(1, 1))
		case 3:
			r.Sub(a, big.NewRat(1, 1))
		case 4:
			r.Mul(a, k)
		case 5:
			r.Quo(a, k)
		case 6: // a*k + small remainder
			r.Mul(a, k)
			r.Add(r, small())
		case 7: // exactly half way between multiples
			r.Mul(a, k)
			r.Add(r, new(big.Rat).Quo(a, big.NewRat(2, 1)))
		case 8, 9: // the integers around a
			fl := new(big.Int).Div(a.Num(), a.Denom())
			if ctx.Rng.Bool() {
				fl.Add(fl, big.NewInt(1))
			}
			r.SetInt(fl)
		case 10:
			r.Add(a, big.NewRat(1, 2))
		default:
			r.Set(k)
		}
		if intsOnly && !r.IsInt() {
			r.SetInt(new(big.Int).Div(r.Num(), r.Denom()))
		}
		return r
	}
	ncases := 6000
	if ctx.Thorough() {
		ncases = 60000
	}
	var terms []string
	var descs []any
	distinct := map[string]bool{}
	vars := []string{"va", "vb", "vc", "vd"}
	// operands for the bitwise operators: fixnums of both signs (bit 63 set or clear) and bignums of both
	// signs in every order, so that a negative fixnum precedes / follows the first bignum
	bitOperand := func() *big.Rat {
		z := new(big.Int)
		switch ctx.Rng.Intn(8) {
		case 0:
			z.SetInt64(-1 - int64(ctx.Rng.Intn(16)))
		case 1:
			z.SetInt64(int64(ctx.Rng.Intn(16)))
		case 2:
			z.SetInt64(int64(ctx.Rng.Next()))
		case 3:
			z.Set(common.Pick(ctx.Rng, grid))
		case 4:
			z.Lsh(big.NewInt(1), uint(64+ctx.Rng.Intn(70)))
			if ctx.Rng.Bool() {
				z.Neg(z)
			}
			z.Add(z, big.NewInt(int64(ctx.Rng.Intn(9))-4))
		default:
			z.Set(randInt())
		}
		return new(big.Rat).SetInt(z)
	}
	runCase := func(op opDef, exprs []string) {
		n := len(exprs)
		var sb strings.Builder
		for i, e := range exprs {
			fmt.Fprintf(&sb, "(setq %s %s) ", vars[i], e)
		}
		if n > 0 {
			if o := common.EvalIn(scope, sb.String()); o.Err != "" {
				panic("operand: " + sb.String() + ": " + o.Msg)
			}
		}
		var gargs, dargs []string
		for i := 0; i < n; i++ {
			g, d := gVal(scope.Get(slip.Symbol(vars[i])))
			gargs = append(gargs, g)
			dargs = append(dargs, d)
		}
		call := fmt.Sprintf("(multiple-value-list (%s %s))", op.lisp, strings.Join(vars[:n], " "))
		out := common.EvalTimeout(scope, call, 5*time.Second)
		var gres, dres string
		switch {
		case out.Err == "":
			lst, _ := out.Value.(slip.List)
			switch {
			case strings.HasPrefix(op.g, "(OCmp"):
				b := len(lst) > 0 && lst[0] != nil
				if len(lst) > 0 {
					if _, isNum := lst[0].(slip.Number); isNum || lst[0] == slip.True || lst[0] == nil {
						gres, dres = "RBool "+common.GBool(b), fmt.Sprint(b)
					} else {
						gres, dres = "RVal VInexact", slip.ObjectString(lst[0])
					}
				}
			case op.multi && len(lst) == 2:
				q, dq := gVal(lst[0])
				r, dr := gVal(lst[1])
				gres, dres = fmt.Sprintf("RVals (%s) (%s)", q, r), dq+", "+dr
			case len(lst) >= 1:
				v, dv := gVal(lst[0])
				gres, dres = "RVal ("+v+")", dv
			default:
				gres, dres = "RVal VInexact", "no value"
			}
		case common.Fault(out.Msg):
			gres, dres = "RCond CFault", "!fault: "+out.Msg
		case out.Err == "division-by-zero":
			gres, dres = "RCond CDivZero", "!division-by-zero"
		case out.Err == "arithmetic-error":
			gres, dres = "RCond CArith", "!arithmetic-error"
		case out.Err == "type-error":
			gres, dres = "RCond CType", "!type-error"
		default:
			gres, dres = "RCond CFault", "!"+out.Err+": "+out.Msg
		}
		var gafter, dafter []string
		for i := 0; i < n; i++ {
			g, d := gVal(scope.Get(slip.Symbol(vars[i])))
			gafter = append(gafter, g)
			dafter = append(dafter, d)
		}
		term := fmt.Sprintf("(%s, %s, %s, %s)", op.g, common.GList(gargs), gres, common.GList(gafter))
		ctx.Meta.Evaluations++
		ctx.Hist("op:" + op.lisp)
		ctx.Hist("result:" + strings.SplitN(gres, " ", 2)[0])
		if !distinct[term] {
			distinct[term] = true
			terms = append(terms, term)
			d := map[string]any{"form": fmt.Sprintf("(%s %s)", op.lisp, strings.Join(exprs, " ")), "operands": dargs, "result": dres, "operands_after": dafter}
			descs = append(descs, d)
			if len(terms)%499 == 1 {
				ctx.Sample(d)
			}
		}
	}
	// the boundary pairs of the property, enumerated exhaustively for every two-operand operator (a reduced
	// grid in the quick tier), and all small pairs for the divisions (ties, signs, zero divisors)
	pairGrid := []*big.Int{big.NewInt(0), big.NewInt(1), big.NewInt(-1), big.NewInt(2), big.NewInt(-2), big.NewInt(3),
		pow2(32), pow2(62), new(big.Int).Neg(pow2(62)), new(big.Int).Sub(pow2(63), big.NewInt(1)), new(big.Int).Neg(pow2(63)),
		pow2(63), new(big.Int).Sub(new(big.Int).Neg(pow2(63)), big.NewInt(1)), pow2(64)}
	if ctx.Thorough() {
		pairGrid = grid
	}
	lit := func(z *big.Int) string { return z.String() }
	for _, op := range ops {
		if op.minA > 2 || op.maxA < 2 || strings.HasPrefix(op.g, "(OCmp") || strings.HasPrefix(op.lisp, "log") {
			continue
		}
		for _, a := range pairGrid {
			for _, b := range pairGrid {
				ctx.Hist("operands:boundary-pair")
				runCase(op, []string{lit(a), lit(b)})
			}
		}
		switch op.lisp {
		case "/", "floor", "ceiling", "truncate", "round", "mod", "rem", "gcd", "lcm":
			for a := int64(-7); a <= 7; a++ {
				for b := int64(-4); b <= 4; b++ {
					ctx.Hist("operands:small-pair")
					runCase(op, []string{fmt.Sprint(a), fmt.Sprint(b)})
				}
			}
		}
	}
	// isqrt, systematically: every grid value as a fixnum / bignum literal and as a bignum OBJECT (small values
	// included), perfect squares of every size with their neighbours, and 2^k for k up to 200: the operand is
	// a variable re-read after the call (big.Int.Sqrt writes into its receiver)
	for _, op := range ops {
		if op.lisp != "isqrt" {
			continue
		}
		var zs []*big.Int
		zs = append(zs, grid...)
		for _, k := range []uint{1, 5, 16, 26, 31, 32, 33, 40, 50, 63, 64, 65, 100} {
			sq := new(big.Int).Mul(pow2(k), pow2(k))
			r := new(big.Int).Add(pow2(k), big.NewInt(int64(ctx.Rng.Intn(1000))))
			zs = append(zs, sq, new(big.Int).Sub(sq, big.NewInt(1)), new(big.Int).Add(sq, big.NewInt(1)), new(big.Int).Mul(r, r),
				new(big.Int).Sub(new(big.Int).Mul(r, r), big.NewInt(1)), pow2(2*k+1))
		}
		zs = append(zs, new(big.Int).Exp(big.NewInt(10), big.NewInt(20), nil), new(big.Int).Exp(big.NewInt(10), big.NewInt(40), nil))
		for _, z := range zs {
			ctx.Hist("operands:isqrt-grid")
			runCase(op, []string{lit(z)})
			if z.IsInt64() && z.BitLen() < 52 {
				runCase(op, []string{fmt.Sprintf("(+ %s 100000000000000000000 -100000000000000000000)", z.String())})
			}
		}
	}
	// comparison chains, systematically: every ratio r of a spread of positive and negative ratios (small,
	// large denominators, bignum numerators whose integer neighbours are fixnums, the extreme fixnums or
	// bignums) x every integer n in {floor r - 1, floor r, ceiling r, ceiling r + 1} x every comparison operator
	// x both orders, as a pair and at both positions of a three-operand chain that does not end before the pair
	ratioLits := []string{"1/2", "3/2", "7/3", "22/7", "1/1000003", "1000003/7", "4611686018427387905/2",
		"9223372036854775807/2", "27670116110564327423/3", "27670116110564327425/3", "18446744073709551617/2",
		"36893488147419103233/4", "100000000000000000001/100000000000000000000", "200000000000000000001/2"}
	if ctx.Thorough() {
		for i := 0; i < 60; i++ {
			r := randRat(false)
			if !r.IsInt() {
				ratioLits = append(ratioLits, new(big.Rat).Abs(r).RatString())
			}
		}
	}
	for _, rl := range ratioLits {
		for _, sign := range []string{"", "-"} {
			r, _ := new(big.Rat).SetString(sign + rl)
			fl := new(big.Int).Div(r.Num(), r.Denom()) // Div is Euclidean: the floor for a positive denominator
			ce := new(big.Int).Add(fl, big.NewInt(1))
			below := new(big.Int).Sub(fl, big.NewInt(3)).String()
			above := new(big.Int).Add(ce, big.NewInt(3)).String()
			for _, n := range []*big.Int{new(big.Int).Sub(fl, big.NewInt(1)), fl, ce, new(big.Int).Add(ce, big.NewInt(1))} {
				for _, op := range ops {
					if !strings.HasPrefix(op.g, "(OCmp") && !strings.HasPrefix(op.g, "(OExt") {
						continue
					}
					// an outer operand that keeps an ascending / descending chain going up to the pair
					first, last := below, above
					if op.lisp == ">" || op.lisp == ">=" || op.lisp == "min" {
						first, last = above, below
					}
					for _, pair := range [][]string{{sign + rl, n.String()}, {n.String(), sign + rl}} {
						ctx.Hist("operands:ratio-and-neighbour-integer")
						runCase(op, pair)
						runCase(op, []string{first, pair[0], pair[1]})
						runCase(op, []string{pair[0], pair[1], last})
					}
				}
			}
		}
	}
	ncases += len(terms)
	for len(terms) < ncases {
		op := common.Pick(ctx.Rng, ops)
		n := op.minA + ctx.Rng.Intn(op.maxA-op.minA+1)
		var exprs []string
		base := randRat(op.ints)
		if ctx.Rng.Chance(25) {
			base = small()
		}
		rel := ctx.Rng.Chance(55)
		bitw := strings.HasPrefix(op.lisp, "log")
		if bitw && ctx.Rng.Chance(60) {
			rel = false
			base = bitOperand()
			ctx.Hist("operands:bitwise-mix")
		} else {
			bitw = false
		}
		if rel {
			ctx.Hist("operands:related")
		}
		for i := 0; i < n; i++ {
			switch {
			case i == 0:
				exprs = append(exprs, show(base))
			case bitw:
				exprs = append(exprs, show(bitOperand()))
			case rel:
				// derive from the first operand; for divisions the roles are also swapped
				exprs = append(exprs, show(related(base, op.ints)))
			default:
				exprs = append(exprs, show(randRat(op.ints)))
			}
		}
		if rel && n >= 2 && ctx.Rng.Chance(40) {
			exprs[0], exprs[1] = exprs[1], exprs[0]
		}
		runCase(op, exprs)
	}
	// incf / decf (addNumbers with the delta as second operand): the place holds the exact sum, the delta
	// variable keeps its value and its identity (a second incf must not double it). Integers only, so the
	// printed form is the oracle.
	nplace := 300
	if ctx.Thorough() {
		nplace = 3000
	}
	for i := 0; i < nplace; i++ {
		x, d := randInt(), randInt()
		if i < 2*len(pairGrid) { // every boundary value as delta, the place random and at the extremes
			d = pairGrid[i/2]
			if i%2 == 1 {
				x = common.Pick(ctx.Rng, pairGrid)
			}
		}
		xs, ds := show(new(big.Rat).SetInt(x)), show(new(big.Rat).SetInt(d))
		prog := fmt.Sprintf("(let ((x %s) (d %s)) (incf x d) (incf x d) (decf x d) (list x d))", xs, ds)
		want := fmt.Sprintf("(%s %s)", new(big.Int).Add(x, d).String(), d.String())
		out := common.EvalTimeout(slip.NewScope(), prog, 5*time.Second)
		got := strings.Join(strings.Fields(common.ShowOutcome(out)), " ") // the printer breaks long lists
		ctx.Meta.Evaluations++
		ctx.Hist("op:incf/decf")
		if got != want {
			ctx.Violate("incf / decf: the place does not hold the exact sum, or the delta operand was altered", prog, got, want)
		}
	}
	// ash on fixnums (outside the Coq model): floor(x * 2^sh) against math/big, any magnitude of the result
	for i := 0; i < nplace; i++ {
		var x *big.Int
		for x = randInt(); !x.IsInt64(); x = randInt() {
		}
		sh := ctx.Rng.Intn(141) - 70
		want := new(big.Int)
		if sh >= 0 {
			want.Lsh(x, uint(sh))
		} else {
			want.Rsh(x, uint(-sh)) // rounds towards minus infinity, like ash
		}
		prog := fmt.Sprintf("(ash %s %d)", x.String(), sh)
		got := common.ShowOutcome(common.EvalTimeout(slip.NewScope(), prog, 5*time.Second))
		ctx.Meta.Evaluations++
		ctx.Hist("op:ash")
		if got != want.String() {
			ctx.Violate("ash of a fixnum is not floor(x * 2^shift)", prog, got, want.String())
		}
	}
	operandsUnchanged(ctx)
	ctx.Meta.DistinctNontrivial = len(distinct)
	ctx.Meta.Rule = "operator from {+ - * / floor ceiling truncate round mod rem abs 1+ 1- gcd lcm < <= > >= = logand logior logxor lognot max min} and isqrt (every grid value, k-bit perfect squares and their neighbours for 13 sizes k up to 200 bits, as literals and as bignum objects holding small values) x 1..3 operands (1..4 for max min) (0..4 for logand logior logxor, 60% of them drawn from a mix of small fixnums of both signs, random 64-bit fixnums, the grid, +-2^k+-j for k in 64..133, and the general integers, each position independently, so negative fixnums occur before and after the first bignum) plus, for every two-operand operator, ALL pairs of the boundary values {0,+-1,+-2,3,2^32,+-2^62,2^63-1,-2^63,2^63,-2^63-1,2^64} (thorough: of the whole grid) and for / floor ceiling truncate round mod rem gcd lcm ALL pairs from -7..7 x -4..4; plus, for every comparison operator and for max and min, every ratio of a spread of 28 positive and negative ratios (bignum numerators included; thorough: 60 random ones more) with each of the integers floor-1, floor, ceiling, ceiling+1 in both orders, as a pair and at both positions of a three-operand chain; plus 300 (thorough 3000) incf/incf/decf sequences on integer places and deltas and as many (ash fixnum shift) calls with shift in -70..70, both checked against math/big directly; plus the operands-unchanged sweep: every integer / rational function of slip out of about 110 call forms (those not defined are skipped) x ALL tuples (one operand, and all pairs) of 15 operand kinds (bignums of both signs, perfect-square bignum, bignum objects holding 0 1 5 -3, ratios of both signs with small and bignum parts, the fixnums 6 and most-negative-fixnum) bound to variables that are re-read after the call (small second operands for expt / ash / the bit-index functions), representation and value compared with before; operands drawn from the boundary grid {0,+-1,+-2,+-3,+-7,+-10,+-2^e,+-(2^e-1),+-(2^e+1) for e in 31,32,62,63,64} (40%), small integers, random 64-bit and random <=200-bit integers, ratios of those (30% for operators that take them), bignum objects holding small values, and in 55% of the cases operands derived from the first one (equal, negated, +-1, small multiples and exact quotients, multiple plus small remainder, exact half-way points, the integers around a ratio, +1/2); distinct = distinct (operator, operand representations) tuples, all non-trivial"
	header := "From C05 Require Import Model Spec Corr.\nOpen Scope Z_scope.\n"
	footer := "Definition res := Eval vm_compute in check_all cases.\nPrint res.\nDefinition gcount := Eval vm_compute in guard_count cases.\nPrint gcount.\nDefinition vcount := Eval vm_compute in value_guard_count cases.\nPrint vcount.\n"
	ctx.WriteShards("cases", header, "case", footer, terms, descs, 16)
	ctx.ReplayKnownLisp()
}

// operandsUnchanged: "never alter their operands" for EVERY integer / rational function, also those outside
// the Coq model. The operands are objects held by variables (bignums, bignum objects with small values,
// ratios: the mutable math/big representations, and fixnums); after the call - whatever it returned or
// signalled - the variables must hold the same representation and value. Values are immutable in the model
// (theorem operands_untouched), so any difference is a violation.
func operandsUnchanged(ctx *common.Ctx) {
	type fn struct {
		form string // %a %b: the operand variables
		n    int
		sm   bool // second operand restricted to small magnitudes (exponents, shift counts, bit indexes)
	}
	var fns []fn
	for _, name := range []string{"isqrt", "abs", "lognot", "1+", "1-", "-", "/", "+", "*", "signum", "numerator", "denominator",
		"evenp", "oddp", "zerop", "plusp", "minusp", "floor", "ceiling", "truncate", "round", "ffloor", "fceiling", "ftruncate",
		"fround", "integer-length", "logcount", "sqrt", "float", "rational", "rationalize", "gcd", "lcm", "max", "min",
		"logand", "logior", "logxor", "logeqv", "exp", "log", "realpart", "imagpart", "conjugate", "phase", "cis", "numberp",
		"integerp", "rationalp", "sin", "cos", "tan", "atan", "sxhash", "princ-to-string", "identity"} {
		fns = append(fns, fn{"(" + name + " %a)", 1, false})
	}
	for _, name := range []string{"+", "-", "*", "/", "floor", "ceiling", "truncate", "round", "ffloor", "fceiling", "ftruncate",
		"fround", "mod", "rem", "gcd", "lcm", "max", "min", "logand", "logior", "logxor", "logeqv", "lognand", "lognor",
		"logandc1", "logandc2", "logorc1", "logorc2", "logtest", "=", "/=", "<", "<=", ">", ">=", "eql", "equal", "equalp",
		"atan", "log", "complex", "float"} {
		fns = append(fns, fn{"(" + name + " %a %b)", 2, false})
	}
	for _, name := range []string{"expt", "ash", "logbitp", "scale-float"} {
		fns = append(fns, fn{"(" + name + " %a %b)", 2, true})
	}
	fns = append(fns, fn{"(logbitp %b %a)", 2, true},
		fn{"(let ((p %a)) (incf p %b) (incf p %b) p)", 2, false}, fn{"(let ((p %a)) (decf p %b) (decf p %b) p)", 2, false},
		fn{"(let ((p %a)) (incf p) (decf p) p)", 1, false}, fn{"(let ((p 1)) (incf p %a) (decf p %a) p)", 1, false},
		fn{"(boole boole-and %a %b)", 2, false}, fn{"(boole boole-xor %a %b)", 2, false},
		fn{"(ldb (byte 8 2) %a)", 1, false}, fn{"(format nil \"~D ~A ~X\" %a %a %a)", 1, false},
		fn{"(coerce %a 'double-float)", 1, false}, fn{"(coerce %a 'long-float)", 1, false}, fn{"(coerce %a 'integer)", 1, false})
	w := func(z string) string { return "(+ " + z + " 100000000000000000000 -100000000000000000000)" }
	kinds := []string{"100000000000000000000", "-100000000000000000000", "18446744073709551616",
		"1361129467683753853853498429727072845824", "-340282366920938463463374607431768211457",
		w("0"), w("1"), w("5"), w("-3"), "7/3", "-7/3", "100000000000000000001/3", "-5/100000000000000000003", "6", "-9223372036854775808"}
	smalls := []string{"0", "1", "2", "3", "-1", "-2", "64", "70", w("2"), w("3"), w("-1"), "1/2", "-3/2"}
	scope := slip.NewScope()
	undefined := map[string]bool{}
	run := func(f fn, a, b string) {
		if undefined[f.form] {
			return
		}
		setup := "(setq ua " + a + ") (setq ub " + b + ")"
		if o := common.EvalIn(scope, setup); o.Err != "" {
			panic("operand: " + setup + ": " + o.Msg)
		}
		ga, da := gVal(scope.Get(slip.Symbol("ua")))
		gb, db := gVal(scope.Get(slip.Symbol("ub")))
		call := strings.ReplaceAll(strings.ReplaceAll(f.form, "%a", "ua"), "%b", "ub")
		out := common.EvalTimeout(scope, call, 5*time.Second)
		if out.Err == "undefined-function" || out.Err == "unbound-variable" || out.Err == "timeout" {
			undefined[f.form] = true
			ctx.Hist("unchanged:skipped-" + out.Err)
			if out.Err == "timeout" { // the evaluation still runs in that scope
				scope = slip.NewScope()
			}
			return
		}
		ga2, da2 := gVal(scope.Get(slip.Symbol("ua")))
		gb2, db2 := gVal(scope.Get(slip.Symbol("ub")))
		ctx.Meta.Evaluations++
		ctx.Hist("unchanged:" + fmt.Sprint(f.n) + "-operand")
		if ga != ga2 || (f.n == 2 && gb != gb2) {
			prog := "(let ((ua " + a + ") (ub " + b + ")) (ignore-errors " + call + ") (list ua ub))"
			ctx.Violate("an operand was altered by the call (operands bound to variables, re-read afterwards)", prog,
				"result "+common.ShowOutcome(out)+"; operands afterwards: "+da2+" ; "+db2, "operands unchanged: "+da+" ; "+db)
		}
	}
	for _, f := range fns {
		for _, a := range kinds {
			if f.n == 1 {
				run(f, a, "0")
				continue
			}
			bs := kinds
			if f.sm {
				bs = smalls
			}
			for _, b := range bs {
				run(f, a, b)
			}
		}
	}
}
