// Package c03: generated objects x printer configurations; each pair is printed by the real printer
// (Printer.Append, or write-to-string with every keyword), the text is read back by the real reader
// (slip.Read, cross-checked with read-from-string), and (configuration, object, text, read-back) goes to
// Coq, which compares with the model printer and the model reader and judges the round trip.
package c03

import (
	"bytes"
	"fmt"
	"math"
	"math/big"
	"strconv"
	"strings"
	"time"
	"unicode/utf8"

	"github.com/ohler55/slip"
	"github.com/ohler55/slip/pkg/swank"
	"verifharness/common"
)

// ---- printer configuration -----------------------------------------------------------------

type cfg struct {
	base     int
	radix    bool
	pcase    string // up down cap none
	pretty   bool
	margin   int // -1: nil
	readably bool
	escape   bool
	array    bool
}

func (c cfg) printer() *slip.Printer {
	p := *slip.DefaultPrinter()
	p.Base, p.Radix, p.Pretty, p.Readably, p.Escape, p.Array = uint(c.base), c.radix, c.pretty, c.readably, c.escape, c.array
	switch c.pcase {
	case "up":
		p.Case = slip.Symbol(":upcase")
	case "down":
		p.Case = slip.Symbol(":downcase")
	case "cap":
		p.Case = slip.Symbol(":capitalize")
	default:
		p.Case = nil
	}
	if c.margin < 0 {
		p.RightMargin = math.MaxInt
	} else {
		p.RightMargin = uint(c.margin)
	}
	p.Length, p.Level, p.Lines, p.Prec = math.MaxInt, math.MaxInt, math.MaxInt, -1
	return &p
}

func lispBool(b bool) string {
	if b {
		return "t"
	}
	return "nil"
}

func (c cfg) keywords() string {
	cs := map[string]string{"up": ":upcase", "down": ":downcase", "cap": ":capitalize", "none": "nil"}[c.pcase]
	m := "nil"
	if 0 <= c.margin {
		m = fmt.Sprint(c.margin)
	}
	return fmt.Sprintf(":array %s :base %d :case %s :escape %s :pretty %s :radix %s :readably %s :right-margin %s :length nil :level nil :lines nil",
		lispBool(c.array), c.base, cs, lispBool(c.escape), lispBool(c.pretty), lispBool(c.radix), lispBool(c.readably), m)
}

func (c cfg) gallina() string {
	cs := map[string]string{"up": "CUp", "down": "CDown", "cap": "CCap", "none": "CNone"}[c.pcase]
	m := "9223372036854775807"
	if 0 <= c.margin {
		m = fmt.Sprint(c.margin)
	}
	return fmt.Sprintf("(Pcfg %d %s %s %s %s %s %s %s)", c.base, common.GBool(c.radix), cs, common.GBool(c.pretty), m,
		common.GBool(c.readably), common.GBool(c.escape), common.GBool(c.array))
}

func (c cfg) String() string {
	return fmt.Sprintf("base=%d radix=%v case=%s pretty=%v margin=%d readably=%v escape=%v array=%v", c.base, c.radix, c.pcase, c.pretty,
		c.margin, c.readably, c.escape, c.array)
}

// ---- canonical form of a slip object: a Gallina term of type obj -------------------------------

func gbytes(s string) string { return common.GBytes([]byte(s)) }

func floatKind(o slip.Object) string {
	switch o.(type) {
	case slip.SingleFloat:
		return "FSingle"
	case slip.DoubleFloat:
		return "FDouble"
	case *slip.LongFloat:
		return "FLong"
	}
	return ""
}

func safeAppend(p *slip.Printer, o slip.Object) (text string, ok bool) {
	defer func() {
		if r := recover(); r != nil {
			text, ok = fmt.Sprint(r), false
		}
	}()
	return string(p.Append(nil, o, 0)), true
}

// arrayRows rebuilds the nested rows of an array through Array.Get, so that a wrong index
// computation (not only a wrong element vector) is visible.
func arrayRows(a *slip.Array, dims []int, prefix []int) slip.List {
	d := dims[len(prefix)]
	out := make(slip.List, d)
	for i := 0; i < d; i++ {
		idx := append(append([]int{}, prefix...), i)
		if len(idx) == len(dims) {
			out[i] = a.Get(idx...)
		} else {
			out[i] = arrayRows(a, dims, idx)
		}
	}
	return out
}

// canon renders o as a Gallina obj; floats carry the text printer p gives them.
func canon(p *slip.Printer, o slip.Object) string {
	switch t := o.(type) {
	case nil:
		return "ONil"
	case slip.List:
		if len(t) == 0 {
			return "ONil"
		}
		if tail, ok := t[len(t)-1].(slip.Tail); ok {
			return fmt.Sprintf("(ODot %s %s)", canonList(p, t[:len(t)-1]), canon(p, tail.Value))
		}
		return "(OList " + canonList(p, t) + ")"
	case slip.Fixnum:
		return fmt.Sprintf("(OInt false (%d))", int64(t))
	case *slip.Bignum:
		return fmt.Sprintf("(OInt true (%s))", (*big.Int)(t).String())
	case *slip.Ratio:
		return fmt.Sprintf("(ORat (%s) (%s))", (*big.Rat)(t).Num().String(), (*big.Rat)(t).Denom().String())
	case slip.SingleFloat, slip.DoubleFloat, *slip.LongFloat:
		txt, _ := safeAppend(p, o)
		return fmt.Sprintf("(OFlt %s %s)", floatKind(o), gbytes(txt))
	case slip.String:
		return "(OStr " + gbytes(string(t)) + ")"
	case slip.Character:
		return fmt.Sprintf("(OChr %d)", int64(t))
	case slip.Symbol:
		return "(OSym " + gbytes(string(t)) + ")"
	case *slip.Vector:
		return "(OVec " + canonList(p, t.AsList()) + ")"
	case *slip.Array:
		dims := t.Dimensions()
		if len(dims) == 0 {
			return "(OOther " + gbytes("array0") + ")"
		}
		for _, d := range dims {
			if d == 0 {
				return "(OOther " + gbytes("array-empty") + ")"
			}
		}
		return fmt.Sprintf("(OArr %d %s)", len(dims), canonList(p, arrayRows(t, dims, nil)))
	}
	if o == slip.True {
		return "OTrue"
	}
	return "(OOther " + gbytes(fmt.Sprintf("%T", o)) + ")"
}

func canonList(p *slip.Printer, l slip.List) string {
	items := make([]string, 0, len(l))
	for _, e := range l {
		// A quote-like marker left dangling before a close parenthesis ("(')" read from the unquoted symbol ')
		// stays in the list as a slip.marker; C02's reader model, which this model reuses, drops it. Such
		// texts only arise outside the guard; the marker is dropped here as well (reported to the integrator).
		if fmt.Sprintf("%T", e) == "slip.marker" {
			continue
		}
		items = append(items, canon(p, e))
	}
	return "[" + strings.Join(items, "; ") + "]"
}

// ---- generator ---------------------------------------------------------------------------

type gen struct {
	ctx *common.Ctx
	// safe: only leaves the unchanged printer and reader carry round under configuration cfg (readable strings,
	// plain symbol names, characters the reader accepts, no ratios or arrays when a radix prefix is printed ...),
	// so that whole nested objects lie inside the guard and the layout machinery is exercised in depth
	safe bool
	cfg  cfg
	// listsOnly: no vectors or arrays (swank messages; slip.ObjectString prints a top-level vector through
	// Vector.Append, not through the printer, so *print-array* does not apply there)
	listsOnly bool
}

func (g *gen) rng() *common.Rng { return g.ctx.Rng }

var boundaryInts = []string{"0", "1", "-1", "9", "10", "35", "36", "-36", "255", "-256", "1295", "9223372036854775807", "-9223372036854775808",
	"9223372036854775808", "-9223372036854775809", "18446744073709551616", "-18446744073709551615", "4611686018427387904",
	"340282366920938463463374607431768211456", "1000000000000000000000000000000"}

func (g *gen) integer() (slip.Object, string) {
	r := g.rng()
	bi := new(big.Int)
	switch x := r.Intn(10); {
	case x < 3:
		bi.SetString(common.Pick(r, boundaryInts), 10)
		g.ctx.Hist("int:boundary")
	case x < 6:
		bi.SetInt64(int64(r.Intn(2000)) - 1000)
		g.ctx.Hist("int:small")
	case x < 8:
		bi.SetInt64(int64(r.Next()))
		g.ctx.Hist("int:int64")
	default:
		// b^k, b^k - 1, random up to 200 bits
		if r.Bool() {
			b := int64(2 + r.Intn(35))
			bi.Exp(big.NewInt(b), big.NewInt(int64(1+r.Intn(40))), nil)
			if r.Bool() {
				bi.Sub(bi, big.NewInt(1))
			}
		} else {
			n := 1 + r.Intn(4)
			for i := 0; i < n; i++ {
				bi.Lsh(bi, 50)
				bi.Add(bi, big.NewInt(int64(r.Next()>>14)))
			}
		}
		if r.Bool() {
			bi.Neg(bi)
		}
		g.ctx.Hist("int:big")
	}
	if bi.IsInt64() {
		return slip.Fixnum(bi.Int64()), "fixnum"
	}
	return (*slip.Bignum)(bi), "bignum"
}

func (g *gen) ratio() slip.Object {
	r := g.rng()
	for {
		n, _ := g.integer()
		d, _ := g.integer()
		var nb, db big.Int
		switch t := n.(type) {
		case slip.Fixnum:
			nb.SetInt64(int64(t))
		case *slip.Bignum:
			nb.Set((*big.Int)(t))
		}
		switch t := d.(type) {
		case slip.Fixnum:
			db.SetInt64(int64(t))
		case *slip.Bignum:
			db.Set((*big.Int)(t))
		}
		if r.Chance(60) {
			nb.SetInt64(int64(r.Intn(200)) - 100)
			db.SetInt64(int64(2 + r.Intn(60)))
		}
		if db.Sign() == 0 {
			continue
		}
		rat := new(big.Rat).SetFrac(&nb, &db)
		if rat.IsInt() {
			continue
		}
		return (*slip.Ratio)(rat)
	}
}

var boundaryDoubles = []float64{0, 1, -1, 1.5, 0.1, 100, 1e21, 1e20, 123456789012345680000, 1e-7, 1e-5, 0.000123, math.MaxFloat64, math.SmallestNonzeroFloat64,
	2.2250738585072014e-308, 4503599627370496.5, 9007199254740993, 1.0000000000000002, 3.141592653589793, -2.5e-300}

func (g *gen) float() slip.Object {
	r := g.rng()
	var f float64
	if r.Chance(50) {
		f = common.Pick(r, boundaryDoubles)
	} else {
		f = math.Float64frombits(r.Next())
		for math.IsNaN(f) || math.IsInf(f, 0) {
			f = math.Float64frombits(r.Next())
		}
		if r.Bool() {
			f = float64(int64(r.Intn(100000))-50000) / float64(int64(1)<<uint(r.Intn(12)))
		}
	}
	switch r.Intn(3) {
	case 0:
		g.ctx.Hist("float:double")
		return slip.DoubleFloat(f)
	case 1:
		g.ctx.Hist("float:single")
		f32 := float32(f)
		if math.IsInf(float64(f32), 0) {
			f32 = math.MaxFloat32
		}
		return slip.SingleFloat(f32)
	default:
		g.ctx.Hist("float:long")
		prec := uint(common.Pick(r, []int{24, 53, 64, 100, 128}))
		bf := new(big.Float).SetPrec(prec).SetFloat64(f)
		if r.Bool() && f != 0 {
			bf.Quo(bf, new(big.Float).SetPrec(prec).SetInt64(3))
		}
		return (*slip.LongFloat)(bf)
	}
}

var scalarClasses = []struct {
	name   string
	lo, hi rune
}{
	{"ascii-letter", 'a', 'z'}, {"ascii-upper", 'A', 'Z'}, {"ascii-digit", '0', '9'}, {"ascii-punct", 0x21, 0x2f}, {"ascii-punct2", 0x3a, 0x40},
	{"ascii-punct3", 0x5b, 0x60}, {"ascii-punct4", 0x7b, 0x7e}, {"space", ' ', ' '}, {"control", 1, 0x1f}, {"nul", 0, 0}, {"del", 0x7f, 0x7f},
	{"c1", 0x80, 0x9f}, {"latin1", 0xa0, 0xff}, {"bmp-2byte", 0x100, 0x7ff}, {"bmp-3byte", 0x800, 0xd7ff}, {"bmp-high", 0xe000, 0xffff},
	{"line-sep", 0x2028, 0x2029}, {"replacement", 0xfffd, 0xfffd}, {"astral", 0x10000, 0x10ffff}, {"quote", '"', '"'}, {"backslash", '\\', '\\'},
	{"pipe", '|', '|'}, {"cjk", 0x4e00, 0x9fff}, {"boundary", 0, 0},
}
var boundaryScalars = []rune{0x7f, 0x80, 0x7ff, 0x800, 0xd7ff, 0xe000, 0xfffd, 0xfffe, 0xffff, 0x10000, 0x10ffff, 0x2028, 0x2029, 0x85, 0xa0}

func (g *gen) scalar() rune {
	r := g.rng()
	c := scalarClasses[r.Intn(len(scalarClasses))]
	g.ctx.Hist("scalar:" + c.name)
	if c.name == "boundary" {
		return common.Pick(r, boundaryScalars)
	}
	return c.lo + rune(r.Intn(int(c.hi-c.lo)+1))
}

func (g *gen) str() slip.Object {
	r := g.rng()
	n := r.Intn(7)
	var sb strings.Builder
	plain := r.Chance(40)
	for i := 0; i < n; i++ {
		if plain {
			sb.WriteRune(rune(' ' + r.Intn(95)))
		} else {
			sb.WriteRune(g.scalar())
		}
	}
	return slip.String(sb.String())
}

var symbolNames = []string{"foo", "bar", "a", "x1", "car", "Foo", "FOO", "fooBar", "a-b", "*x*", "+", "-", "1+", "a.b", "...", "<=", "a:b", "$v", "%", "=", "~a", "^", "_",
	"a b", "a(b", "(", ")", "'", "a'b", "\"", ";", "a;b", "#", "a#", ",", "`", "&rest", "a&b", "/", "a/b", "[", "]", "{", "}", "!", "a!",
	"a|b", "|", "a\\b", "\\", "a?", "?", "123", "-5", "+7", "1.", "1.5", "1e5", "1d0", "2s3", "1f0", "1l0", "-1.5e-3", "1/2", ".", "..", "t", "T", "nil", "NIL", "Nil", "tt", "nile",
	":key", ":Key", ":a b", ":a|b", ":", ":1", "", "@x", "a@b", "日本", "—x", "a\tb", "a\nb", "a\x01b", "\x7f", "A B", "Hello World", "quote", "lambda", "u", "#b1", "x y z"}

// onlyMarkers: names made of quote-like characters alone. Printed without bars (createTree) directly before a
// close parenthesis they leave a dangling reader marker in the list; C02's reader model, reused here, drops
// such markers while the Go reader keeps them as an element (reported to the integrator). Not generated.
func onlyMarkers(s string) bool {
	return s != "" && strings.Trim(s, "'`,") == ""
}

func (g *gen) symbol() slip.Object {
	r := g.rng()
	if r.Chance(75) {
		s := common.Pick(r, symbolNames)
		for onlyMarkers(s) {
			s = common.Pick(r, symbolNames)
		}
		g.ctx.Hist("symbol:listed")
		return slip.Symbol(s)
	}
	// random ASCII name
	n := 1 + r.Intn(5)
	var sb strings.Builder
	for i := 0; i < n; i++ {
		if r.Chance(70) {
			sb.WriteByte(byte('a' + r.Intn(26)))
		} else {
			sb.WriteByte(byte(0x20 + r.Intn(0x5f)))
		}
	}
	g.ctx.Hist("symbol:random")
	if onlyMarkers(sb.String()) {
		return slip.Symbol("x" + sb.String())
	}
	return slip.Symbol(sb.String())
}

var safeSymbols = []string{"foo", "bar", "a", "x1", "car", "Foo", "FOO", "fooBar", "a-b", "*x*", "+", "-", "1+", "a.b", "...", "<=", "a:b", "$v", "%", "=", "~a", "^", "_",
	"tt", "nile", ":key", ":Key", ":", ":1", "quote", "lambda", "u", "defun", "&rest", "a@b", "x/y"}
var safePipeSymbols = []string{"a b", "a(b", "(", ")", "'", "a'b", "\"", ";", "a;b", "#", "a#", ",", "`", "a&b", "[", "]", "{", "}", "!", "a!", "A B", "Hello World", "x y z", "", "123", "-5", "1.", "1e5", "1d0", "1/2", "2s3", "a|b", "|", "a\\b", "\\", "a\x01b", "a\tb", "x|y z", ":a b", ":(", ":a|b", "a?", "?", ".", "nil", "NIL", "Nil", "@2024-01-02", "@x"}

func (g *gen) safeAtom() slip.Object {
	r := g.rng()
	c := g.cfg
	switch x := r.Intn(100); {
	case x < 30:
		o, _ := g.integer()
		return o
	case x < 36:
		if c.base == 10 && !c.radix {
			g.ctx.Hist("leaf:ratio")
			return g.ratio()
		}
		o, _ := g.integer()
		return o
	case x < 44:
		// floats keep their format only when printed readably (and long floats are a known finding)
		if c.readably {
			for {
				f := g.float()
				if _, isLong := f.(*slip.LongFloat); !isLong || r.Chance(30) {
					return f
				}
			}
		}
		o, _ := g.integer()
		return o
	case x < 58:
		g.ctx.Hist("leaf:string")
		if c.readably {
			return g.str()
		}
		n := r.Intn(7)
		var sb strings.Builder
		for i := 0; i < n; i++ {
			ch := rune(' ' + r.Intn(95))
			if ch == '"' || ch == '\\' {
				ch = rune(0x100 + r.Intn(0x4000))
			}
			sb.WriteRune(ch)
		}
		return slip.String(sb.String())
	case x < 70:
		g.ctx.Hist("leaf:character")
		return slip.Character(g.scalar())
	case x < 92:
		g.ctx.Hist("symbol:safe")
		if r.Chance(30) {
			return slip.Symbol(common.Pick(r, safePipeSymbols))
		}
		if c.pcase == "none" && r.Chance(20) {
			return slip.Symbol(common.Pick(r, []string{"é", "日本", "—x", "a é", "Ünï", "λ", "x日"}))
		}
		return slip.Symbol(common.Pick(r, safeSymbols))
	case x < 96:
		g.ctx.Hist("leaf:nil")
		return nil
	default:
		g.ctx.Hist("leaf:t")
		return slip.True
	}
}

func (g *gen) atom() slip.Object {
	if g.safe {
		return g.safeAtom()
	}
	r := g.rng()
	switch x := r.Intn(100); {
	case x < 22:
		o, _ := g.integer()
		return o
	case x < 30:
		g.ctx.Hist("leaf:ratio")
		return g.ratio()
	case x < 40:
		return g.float()
	case x < 55:
		g.ctx.Hist("leaf:string")
		return g.str()
	case x < 67:
		g.ctx.Hist("leaf:character")
		return slip.Character(g.scalar())
	case x < 92:
		return g.symbol()
	case x < 96:
		g.ctx.Hist("leaf:nil")
		return nil
	default:
		g.ctx.Hist("leaf:t")
		return slip.True
	}
}

func (g *gen) object(depth int) slip.Object {
	r := g.rng()
	if depth <= 0 || r.Chance(35) {
		return g.atom()
	}
	x := r.Intn(100)
	if g.listsOnly && 60 <= x {
		x = r.Intn(60)
	}
	switch {
	case x < 45:
		n := 1 + r.Intn(5)
		l := make(slip.List, n)
		for i := range l {
			l[i] = g.object(depth - 1)
		}
		g.ctx.Hist("node:list")
		return l
	case x < 60:
		n := 1 + r.Intn(3)
		l := make(slip.List, n+1)
		for i := 0; i < n; i++ {
			l[i] = g.object(depth - 1)
		}
		tl := g.atom()
		for tl == nil {
			tl = g.atom()
		}
		l[n] = slip.Tail{Value: tl}
		g.ctx.Hist("node:dotted")
		return l
	case x < 85:
		n := r.Intn(5)
		l := make(slip.List, n)
		for i := range l {
			l[i] = g.object(depth - 1)
		}
		g.ctx.Hist("node:vector")
		return slip.NewVector(n, slip.TrueSymbol, nil, l, r.Bool())
	default:
		rank := 2 + r.Intn(2)
		dims := make([]int, rank)
		for i := range dims {
			dims[i] = 1 + r.Intn(3)
		}
		var build func(di int) slip.List
		build = func(di int) slip.List {
			l := make(slip.List, dims[di])
			for i := range l {
				if di == rank-1 {
					l[i] = g.object(depth - 2)
				} else {
					l[i] = build(di + 1)
				}
			}
			return l
		}
		g.ctx.Hist(fmt.Sprintf("node:array-rank%d", rank))
		return slip.NewArray(dims, slip.TrueSymbol, nil, build(0), r.Bool())
	}
}

func (g *gen) config() cfg {
	r := g.rng()
	c := cfg{base: 10, pcase: "down", margin: -1, escape: true, array: true}
	switch x := r.Intn(10); {
	case x < 3:
		c.base = 10
	case x < 6:
		c.base = common.Pick(r, []int{2, 8, 16, 36, 3, 11})
	default:
		c.base = 2 + r.Intn(35)
	}
	c.radix = r.Chance(60) || (c.base != 10 && r.Chance(70))
	c.pcase = common.Pick(r, []string{"up", "down", "cap", "none"})
	c.pretty = r.Bool()
	switch x := r.Intn(10); {
	case x < 1:
		c.margin = -1
	case x < 5:
		c.margin = 1 + r.Intn(25)
	default:
		c.margin = 1 + r.Intn(200)
	}
	c.readably = r.Chance(60)
	c.escape = !r.Chance(6)
	c.array = !r.Chance(6)
	return c
}

func (g *gen) readableConfig() cfg {
	c := g.config()
	c.escape, c.array = true, true
	if c.base != 10 {
		c.radix = true
	}
	return c
}

// ---- one case ----------------------------------------------------------------------------------

type caseDesc struct {
	Config  string `json:"printer"`
	Object  string `json:"object"`
	Term    string `json:"object_term"`
	Via     string `json:"via"`
	Printed string `json:"printed"`
	Read    string `json:"read_back"`
}

func safeRead(text string) (code slip.Code, ok bool, msg string) {
	type res struct {
		code slip.Code
		ok   bool
		msg  string
	}
	ch := make(chan res, 1)
	go func() {
		defer func() {
			if r := recover(); r != nil {
				m := fmt.Sprint(r)
				if p, isP := r.(*slip.Panic); isP {
					m = p.Message
				}
				ch <- res{nil, false, m}
			}
		}()
		ch <- res{slip.Read([]byte(text), slip.NewScope()), true, ""}
	}()
	select {
	case r := <-ch:
		return r.code, r.ok, r.msg
	case <-time.After(5 * time.Second):
		return nil, false, "timeout"
	}
}

func show(o slip.Object) string {
	p := cfg{base: 10, pcase: "none", margin: -1, readably: true, escape: true, array: true}.printer()
	s, _ := safeAppend(p, o)
	return s
}

func quoteASCII(s string) string { return fmt.Sprintf("%+q", s) }

// runCase prints and reads back; viaLisp: through write-to-string / read-from-string.
func (g *gen) runCase(c cfg, o slip.Object, viaLisp bool) (term string, d caseDesc) {
	p := c.printer()
	d = caseDesc{Config: c.String(), Object: quoteASCII(show(o)), Term: canon(p, o), Via: "Printer.Append + slip.Read"}
	var text string
	var printed bool
	if viaLisp {
		d.Via = "write-to-string + slip.Read / read-from-string"
		scope := slip.NewScope()
		scope.Let(slip.Symbol("c03-x"), o)
		out := common.EvalTimeout(scope, "(write-to-string c03-x "+c.keywords()+")", 5*time.Second)
		if s, ok := out.Value.(slip.String); ok && out.Err == "" {
			text, printed = string(s), true
		} else {
			d.Printed = "!" + out.Err + " " + out.Msg
		}
	} else {
		text, printed = safeAppend(p, o)
		if !printed {
			d.Printed = "!panic " + text
		}
	}
	gtext, gread := "None", "None"
	if printed {
		d.Printed = quoteASCII(text)
		gtext = "(Some " + gbytes(text) + ")"
		code, ok, msg := safeRead(text)
		if ok {
			items := make([]string, len(code))
			shown := make([]string, len(code))
			for i, e := range code {
				items[i] = canon(p, e)
				shown[i] = show(e)
			}
			gread = "(Some [" + strings.Join(items, "; ") + "])"
			d.Read = quoteASCII(strings.Join(shown, " ")) + fmt.Sprintf(" (%d object(s))", len(code))
			if len(code) == 1 {
				if diff := g.floatsPreserved(o, code[0]); diff != "" {
					g.ctx.Violate("a float read back in its own format is a different number: "+diff, d, d.Read, nil)
				}
			}
			if viaLisp && len(code) == 1 {
				// read-from-string must agree with Read on the first object
				scope := slip.NewScope()
				scope.Let(slip.Symbol("c03-s"), slip.String(text))
				out := common.EvalTimeout(scope, "(read-from-string c03-s)", 5*time.Second)
				if out.Err != "" || canon(p, firstValue(out.Value)) != items[0] {
					g.ctx.Violate("read-from-string and slip.Read disagree on the printed text", d, common.ShowOutcome(out), shown[0])
				}
			}
		} else {
			d.Read = "!" + msg
		}
	}
	term = fmt.Sprintf("(Case %s %s %s %s)", c.gallina(), canon(p, o), gtext, gread)
	return
}

// floatsPreserved walks the object printed and the object read back in parallel; where both hold a float of
// the same format the values must be the same number (strconv / big.Float round trip, checked on the
// implementation only: floats are opaque in the Coq model). Returns a description of the first difference.
func (g *gen) floatsPreserved(a, b slip.Object) string {
	switch ta := a.(type) {
	case slip.DoubleFloat:
		if tb, ok := b.(slip.DoubleFloat); ok && ta != tb {
			return fmt.Sprintf("double-float %v read back as %v", float64(ta), float64(tb))
		}
	case slip.SingleFloat:
		if tb, ok := b.(slip.SingleFloat); ok && ta != tb {
			return fmt.Sprintf("single-float %v read back as %v", float32(ta), float32(tb))
		}
	case *slip.LongFloat:
		// Known finding C03-long-float-reread: the reader derives the precision of a long float from the number
		// of digits of the token ("1L+21" is read with 3 bits), so the shortest text the printer emits is read as
		// a different number. Long floats are therefore only counted here, not judged.
		if tb, ok := b.(*slip.LongFloat); ok && (*big.Float)(ta).Cmp((*big.Float)(tb)) != 0 {
			g.ctx.Hist("long-float:reread-as-a-different-number")
		}
	case slip.List:
		if tb, ok := b.(slip.List); ok && len(ta) == len(tb) {
			for i := range ta {
				if d := g.floatsPreserved(ta[i], tb[i]); d != "" {
					return d
				}
			}
		}
	case slip.Tail:
		if tb, ok := b.(slip.Tail); ok {
			return g.floatsPreserved(ta.Value, tb.Value)
		}
	case *slip.Vector:
		if tb, ok := b.(*slip.Vector); ok {
			return g.floatsPreserved(ta.AsList(), tb.AsList())
		}
	case *slip.Array:
		if tb, ok := b.(*slip.Array); ok {
			return g.floatsPreserved(ta.AsList(), tb.AsList())
		}
	}
	return ""
}

// defaultCfg mirrors slip.DefaultPrinter(), which WriteWireMessage (slip.ObjectString) prints with.
func defaultCfg() cfg {
	p := slip.DefaultPrinter()
	c := cfg{base: int(p.Base), radix: p.Radix, pretty: p.Pretty, readably: p.Readably, escape: p.Escape, array: p.Array, margin: int(p.RightMargin), pcase: "none"}
	switch p.Case {
	case slip.Symbol(":upcase"):
		c.pcase = "up"
	case slip.Symbol(":downcase"):
		c.pcase = "down"
	case slip.Symbol(":capitalize"):
		c.pcase = "cap"
	}
	if p.RightMargin == math.MaxInt {
		c.margin = -1
	}
	return c
}

// wireCase sends o through swank.WriteWireMessage and reads it back with swank.ReadWireMessage. The frame
// (six upper-case hex digits, then the payload) is checked here; the payload and the object read from it go
// to Coq like any other pair, under the default printer configuration.
func (g *gen) wireCase(o slip.Object) (term string, d caseDesc, ok bool) {
	c := defaultCfg()
	p := c.printer()
	d = caseDesc{Config: c.String() + " (default printer)", Object: quoteASCII(show(o)), Term: canon(p, o), Via: "swank.WriteWireMessage + swank.ReadWireMessage"}
	var buf bytes.Buffer
	var werr error
	func() {
		defer func() {
			if r := recover(); r != nil {
				werr = fmt.Errorf("panic: %v", r)
			}
		}()
		werr = swank.WriteWireMessage(&buf, o)
	}()
	if werr != nil {
		// the default printer refuses or faults on this object: same outcome as Printer.Append; judged in Coq
		term = fmt.Sprintf("(Case %s %s None None)", c.gallina(), canon(p, o))
		d.Printed = "!" + werr.Error()
		return term, d, true
	}
	frame := buf.Bytes()
	// the header must be what the reader parses: six hexadecimal digits (either case) spelling the payload length
	if n, err := strconv.ParseUint(string(frame[:min(len(frame), 6)]), 16, 32); len(frame) < 6 || err != nil || int(n) != len(frame)-6 {
		g.ctx.Violate("wire frame header is not the length of the payload in six hex digits", d, quoteASCII(string(frame[:min(len(frame), 12)])), fmt.Sprintf("%06X", len(frame)-6))
		return "", d, false
	}
	payload := string(frame[6:])
	d.Printed = quoteASCII(payload)
	got, rerr := swank.ReadWireMessage(bytes.NewReader(append(append([]byte{}, frame...), "000002()"...)), slip.NewScope())
	gread := "None"
	code, rok, _ := safeRead(payload)
	if rerr == nil {
		// ReadWireMessage returns the first object of the payload (nil for an empty payload)
		if rok && len(code) > 0 && canon(p, code[0]) != canon(p, got) {
			g.ctx.Violate("ReadWireMessage and slip.Read disagree on the payload", d, show(got), show(code[0]))
		}
		if rok {
			items := make([]string, len(code))
			for i, e := range code {
				items[i] = canon(p, e)
			}
			if len(code) > 0 {
				items[0] = canon(p, got)
			}
			gread = "(Some [" + strings.Join(items, "; ") + "])"
			d.Read = quoteASCII(show(got))
		}
	} else {
		if rok {
			g.ctx.Violate("ReadWireMessage fails on a payload slip.Read accepts", d, rerr.Error(), nil)
		}
		d.Read = "!" + rerr.Error()
	}
	term = fmt.Sprintf("(Case %s %s (Some %s) %s)", c.gallina(), canon(p, o), gbytes(payload), gread)
	return term, d, true
}

// layoutContentCases enumerates (not samples) the products described at part F. The pretty printer renders a vector or
// array that is an element of a list into a buffer of its own (createTree, default branch) and places that buffer in
// the layout tree; whatever is done to such a leaf because of where it sits (offset, wrapping) must not reach into the
// lexemes the buffer holds. Content lexemes: names and strings with a newline / return / tab / several blanks at the
// start, in the middle, at the end, doubled, next to a parenthesis; the named white-space characters.
func layoutContentCases(thorough bool) (out []repairedCase) {
	sym := func(s string) slip.Object { return slip.Symbol(s) }
	str := func(s string) slip.Object { return slip.String(s) }
	lexemes := []struct {
		id string
		o  slip.Object
	}{
		{"sym-nl-mid", sym("x\ny")}, {"sym-nl-first", sym("\nx")}, {"sym-nl-last", sym("x\n")}, {"sym-nl-twice", sym("a\n\nb")},
		{"sym-nl-blank", sym("a\n b")}, {"sym-cr", sym("a\rb")}, {"sym-tab", sym("a\tb")}, {"sym-two-blanks", sym("a  b")},
		{"sym-nl-paren", sym("a\n(b")}, {"sym-only-nl", sym("\n")}, {"kw-nl", sym(":k\nw")},
		{"str-nl-mid", str("x\ny")}, {"str-only-nl", str("\n")}, {"str-nl-indent", str("a\n  b")}, {"str-two-blanks", str("two  blanks")},
		{"str-crlf", str("a\r\nb")}, {"str-nl-parens", str("(\n)")}, {"str-nl-last", str("x\n")},
		{"chr-newline", slip.Character('\n')}, {"chr-space", slip.Character(' ')}, {"chr-tab", slip.Character('\t')},
	}
	one, filler := slip.Symbol("one"), slip.Fixnum(2)
	vec := func(l ...slip.Object) slip.Object { return slip.NewVector(len(l), slip.TrueSymbol, nil, slip.List(l), false) }
	carriers := []struct {
		id string
		f  func(x slip.Object) slip.Object
	}{
		{"vector-last", func(x slip.Object) slip.Object { return vec(one, x) }},
		{"vector-only", func(x slip.Object) slip.Object { return vec(x) }},
		{"vector-first", func(x slip.Object) slip.Object { return vec(x, one, filler) }},
		{"array-2x2", func(x slip.Object) slip.Object {
			return slip.NewArray([]int{2, 2}, slip.TrueSymbol, nil, slip.List{slip.List{slip.Fixnum(1), x}, slip.List{slip.Fixnum(3), slip.Fixnum(4)}}, false)
		}},
		{"array-2x1x1", func(x slip.Object) slip.Object {
			return slip.NewArray([]int{2, 1, 1}, slip.TrueSymbol, nil, slip.List{slip.List{slip.List{one}}, slip.List{slip.List{x}}}, false)
		}},
		{"vector-in-vector", func(x slip.Object) slip.Object { return vec(vec(x), filler) }},
		{"list-in-vector", func(x slip.Object) slip.Object { return vec(slip.List{one, x}, filler) }},
		{"list", func(x slip.Object) slip.Object { return slip.List{one, x} }}, // no leaf buffer: the control
	}
	outers := []struct {
		id string
		f  func(k slip.Object) slip.Object
	}{
		{"only-element", func(k slip.Object) slip.Object { return slip.List{k} }},
		{"second-element", func(k slip.Object) slip.Object { return slip.List{slip.Symbol("k"), k} }},
		{"first-of-inner", func(k slip.Object) slip.Object { return slip.List{slip.List{k}, slip.Symbol("k")} }},
		{"deep-wrapped", func(k slip.Object) slip.Object {
			return slip.List{slip.Symbol("alpha"), slip.List{slip.Symbol("beta"), k, slip.String("some text")}, slip.Symbol("gamma")}
		}},
		{"before-dotted-tail", func(k slip.Object) slip.Object { return slip.List{k, slip.Tail{Value: slip.Symbol("tl")}} }},
		{"list-in-top-vector", func(k slip.Object) slip.Object { return vec(slip.List{k}) }},
		{"top-level", func(k slip.Object) slip.Object { return k }}, // offset 0: the control
	}
	base := cfg{base: 10, pcase: "down", pretty: true, margin: -1, readably: true, escape: true, array: true}
	margins := []int{1, 12, 30, -1}
	n := 0
	for _, lx := range lexemes {
		for _, ca := range carriers {
			for _, ou := range outers {
				o := ou.f(ca.f(lx.o))
				id := lx.id + "/" + ca.id + "/" + ou.id
				for mi, m := range margins {
					for ri, readably := range []bool{true, false} {
						// quick tier: two of the eight (margin, readably) configurations per object, rotating so that every
						// (lexeme, carrier) pair meets every margin and both values of *print-readably* over the outer shapes
						if !thorough && (mi*2+ri)%4 != n%4 {
							continue
						}
						c := base
						c.margin, c.readably = m, readably
						if n%7 == 3 {
							c.pcase = "up"
						}
						out = append(out, repairedCase{id, c, o})
					}
				}
				n++
			}
		}
	}
	return
}

type repairedCase struct {
	id string
	c  cfg
	o  slip.Object
}

// repairedCases lists, per repaired finding, objects of the shape that used to fail together with the printer
// configuration under which they failed; they are printed, read back and judged like every other pair.
func repairedCases() (out []repairedCase) {
	flat := cfg{base: 10, pcase: "down", margin: -1, readably: true, escape: true, array: true}
	pretty := flat
	pretty.pretty, pretty.margin = true, 80
	with := func(c cfg, f func(c *cfg)) cfg { f(&c); return c }
	// C03-2: the empty symbol inside a list, pretty, :capitalize (Go index panic)
	capPretty := with(pretty, func(c *cfg) { c.pcase = "cap" })
	for _, o := range []slip.Object{
		slip.List{slip.Symbol("")},
		slip.List{slip.List{slip.Symbol(""), slip.Symbol("a")}, slip.Symbol("")},
		slip.NewVector(2, slip.TrueSymbol, nil, slip.List{slip.Symbol(""), slip.Fixnum(1)}, false),
		slip.List{slip.Symbol("x"), slip.Tail{Value: slip.Symbol("")}},
	} {
		out = append(out, repairedCase{"C03-2", capPretty, o})
		out = append(out, repairedCase{"C03-2", with(capPretty, func(c *cfg) { c.margin = 3 }), o})
	}
	// C03-3: names that read as numbers, alone and in lists, flat (in a pretty list the bars are still dropped)
	for _, name := range []string{"123", "-5", "+7", "1.", "1.5", "1e5", "1E5", "1d0", "2s3", "1f0", "1l0", "1L0", "-1.5e-3", "1/2", "-3/4", "1/0", "+", "-", "1+", "-a", "1e", "0", "00", "9223372036854775808"} {
		for _, c := range []cfg{flat, with(flat, func(c *cfg) { c.pcase = "up" }), with(flat, func(c *cfg) { c.base, c.radix = 16, true }), pretty} {
			out = append(out, repairedCase{"C03-3", c, slip.Symbol(name)})
			if !c.pretty {
				out = append(out, repairedCase{"C03-3", c, slip.List{slip.Symbol(name), slip.Symbol("x"), slip.Symbol(name)}})
			}
		}
	}
	// C03-4: symbols that need bars inside lists, vectors, dotted pairs and arrays under *print-pretty* t, any margin;
	// & in first place and / keep their plain spelling
	barNames := []string{"a b", "", "(", ")", "a(b", "'", "\"", ";", "#", ",x", "`", "a&b", "&", "&rest", "&key", "/", "/=", "a/b", "1/2", "123", "-5", "A B", "{", "[x]", "!"}
	for i, name := range barNames {
		other := barNames[(i+7)%len(barNames)]
		for _, c := range []cfg{pretty, with(pretty, func(c *cfg) { c.margin = 4 }), with(pretty, func(c *cfg) { c.pcase = "cap"; c.margin = 1 }), with(pretty, func(c *cfg) { c.pcase = "up"; c.base, c.radix = 2, true })} {
			out = append(out, repairedCase{"C03-4", c, slip.List{slip.Symbol(name), slip.Symbol("c")}})
			out = append(out, repairedCase{"C03-4", c, slip.List{slip.Symbol("x"), slip.List{slip.Symbol(other), slip.Symbol(name)}, slip.Tail{Value: slip.Symbol(name)}}})
			out = append(out, repairedCase{"C03-4", c, slip.NewVector(2, slip.TrueSymbol, nil, slip.List{slip.Symbol(name), slip.Symbol(other)}, false)})
		}
	}
	out = append(out, repairedCase{"C03-4", pretty, slip.NewArray([]int{2, 2}, slip.TrueSymbol, nil,
		slip.List{slip.List{slip.Symbol("a b"), slip.Symbol("")}, slip.List{slip.Symbol("("), slip.Symbol("&rest")}}, false)})
	// C03-5: | \ and control characters inside names that get bars
	for _, name := range []string{"a|b", "|", "||", "a\\b", "\\", "\\|", "|\\", "a\x01b", "\x00", "\x1f x", "a\tb|", "a\nb\\", "\x7f|", "a b\\n", "\\u0041 x", "x|y|z", "A|B c"} {
		for _, c := range []cfg{flat, pretty, with(flat, func(c *cfg) { c.pcase = "up" }), with(pretty, func(c *cfg) { c.pcase = "cap"; c.margin = 5 }), with(flat, func(c *cfg) { c.pcase = "none"; c.readably = false })} {
			out = append(out, repairedCase{"C03-5", c, slip.Symbol(name)})
			out = append(out, repairedCase{"C03-5", c, slip.List{slip.Symbol(name), slip.Symbol("x"), slip.Tail{Value: slip.Symbol(name)}}})
		}
	}
	// C03-6: keywords whose names need bars
	for _, name := range []string{":a b", ":", ":a", ":(", ":a|b", ":a\\", ":1", ":a;b", ": ", "::", ":A B", ":a'b", ":\"", ":a\x02"} {
		for _, c := range []cfg{flat, pretty, with(pretty, func(c *cfg) { c.pcase = "up"; c.margin = 2 }), with(flat, func(c *cfg) { c.pcase = "cap" })} {
			out = append(out, repairedCase{"C03-6", c, slip.Symbol(name)})
			out = append(out, repairedCase{"C03-6", c, slip.List{slip.Symbol(name), slip.Symbol(":k"), slip.Symbol(name)}})
		}
	}
	// C03-7: ? in a name
	for _, name := range []string{"a?", "?", "??", "null?", "?x", "A?b", ":key?"} {
		for _, c := range []cfg{flat, pretty, with(pretty, func(c *cfg) { c.pcase = "up"; c.margin = 2 })} {
			out = append(out, repairedCase{"C03-7", c, slip.Symbol(name)})
			out = append(out, repairedCase{"C03-7", c, slip.List{slip.Symbol(name), slip.Symbol("x"), slip.Symbol(name)}})
		}
	}
	// C03-8: non-ASCII names, *print-case* nil (inside the guard) and with a conversion (caseless scripts: the model's
	// ASCII caseName agrees with strings.ToUpper / ToLower on them)
	for _, name := range []string{"é", "日本", "—x", "a é", "x日", "日 本", "λ|", "\xffa", "a\x80", "ß", "É", "Ünï", "日本語-x", "𝄢"} {
		for _, c := range []cfg{with(flat, func(c *cfg) { c.pcase = "none" }), with(pretty, func(c *cfg) { c.pcase = "none"; c.margin = 6 })} {
			out = append(out, repairedCase{"C03-8", c, slip.Symbol(name)})
			out = append(out, repairedCase{"C03-8", c, slip.List{slip.Symbol(name), slip.Symbol("x"), slip.Tail{Value: slip.Symbol(name)}}})
		}
	}
	for _, name := range []string{"日本", "—x", "x日", "日 本", "日本語-x", "𝄢"} {
		for _, c := range []cfg{flat, with(pretty, func(c *cfg) { c.pcase = "up" }), with(flat, func(c *cfg) { c.pcase = "cap" })} {
			out = append(out, repairedCase{"C03-8", c, slip.List{slip.Symbol(name), slip.Symbol("x")}})
		}
	}
	// C03-9: the symbol named . in every place of a list and as the tail of a dotted pair
	dot, a, b := slip.Symbol("."), slip.Symbol("a"), slip.Symbol("b")
	for _, o := range []slip.Object{dot, slip.List{a, dot, b}, slip.List{dot, a, b}, slip.List{a, b, dot}, slip.List{dot}, slip.List{dot, dot, dot},
		slip.List{a, slip.Tail{Value: dot}}, slip.List{a, dot, slip.Tail{Value: b}}, slip.List{slip.Symbol(".."), slip.Symbol("..."), slip.Symbol("a.b")},
		slip.NewVector(3, slip.TrueSymbol, nil, slip.List{a, dot, b}, false)} {
		for _, c := range []cfg{flat, pretty, with(pretty, func(c *cfg) { c.pcase = "up"; c.margin = 2 })} {
			out = append(out, repairedCase{"C03-9", c, o})
		}
	}
	// C03-10: symbols named nil in any case next to the empty list
	for _, o := range []slip.Object{slip.Symbol("nil"), slip.Symbol("NIL"), slip.Symbol("Nil"), slip.Symbol("nIL"),
		slip.List{slip.Symbol("nil"), nil, slip.Symbol("NIL"), slip.Symbol("nile"), slip.Symbol("ni")},
		slip.List{nil, slip.Tail{Value: slip.Symbol("Nil")}}, slip.NewVector(2, slip.TrueSymbol, nil, slip.List{slip.Symbol("nil"), nil}, false)} {
		for _, c := range []cfg{flat, pretty, with(pretty, func(c *cfg) { c.pcase = "up"; c.margin = 2 }), with(flat, func(c *cfg) { c.pcase = "cap" }), with(flat, func(c *cfg) { c.pcase = "none" })} {
			out = append(out, repairedCase{"C03-10", c, o})
		}
	}
	// C03-11: names that begin with @ (a time for the reader when bare)
	for _, name := range []string{"@2024-01-02", "@2024-01-02T10:11:12", "@2024-01-02T10:11:12Z", "@2024-01-02T10:11:12.5+01:00", "@x", "@", "@@", "a@b", "x@", "@ a"} {
		for _, c := range []cfg{flat, pretty, with(pretty, func(c *cfg) { c.pcase = "up"; c.margin = 2 })} {
			out = append(out, repairedCase{"C03-11", c, slip.Symbol(name)})
			out = append(out, repairedCase{"C03-11", c, slip.List{slip.Symbol("x"), slip.Symbol(name), slip.Tail{Value: slip.Symbol(name)}}})
		}
	}
	// C03-12: the NUL character, alone, in lists and next to strings holding it
	for _, o := range []slip.Object{slip.Character(0), slip.List{slip.Character(0), slip.Character('a'), slip.Character(0)},
		slip.List{slip.String("a\x00b"), slip.Tail{Value: slip.Character(0)}}, slip.NewVector(2, slip.TrueSymbol, nil, slip.List{slip.Character(0), slip.Character(1)}, false)} {
		for _, c := range []cfg{flat, pretty, with(pretty, func(c *cfg) { c.pcase = "up"; c.margin = 2 }), with(flat, func(c *cfg) { c.readably = false })} {
			out = append(out, repairedCase{"C03-12", c, o})
		}
	}
	// C03-13: the characters the reader rejects after #\ (the sweep of part A covers every ASCII character alone)
	var chars slip.List
	for _, ch := range "!\"$%&'();?[\\]`{}" {
		chars = append(chars, slip.Character(ch))
	}
	for _, c := range []cfg{flat, pretty, with(pretty, func(c *cfg) { c.margin = 9 }), with(flat, func(c *cfg) { c.readably = false; c.pcase = "up" })} {
		out = append(out, repairedCase{"C03-13", c, chars})
		out = append(out, repairedCase{"C03-13", c, slip.NewVector(len(chars), slip.TrueSymbol, nil, chars, false)})
		out = append(out, repairedCase{"C03-13", c, slip.List{slip.Character('('), slip.Tail{Value: slip.Character(')')}}})
	}
	// C03-14: arrays of rank 2, 3 and 10 under every kind of radix prefix and in bases where the rank has a letter
	mk := func(dims []int) slip.Object {
		n := 1
		for _, d := range dims {
			n *= d
		}
		var build func(di, base int) slip.List
		build = func(di, base int) slip.List {
			l := make(slip.List, dims[di])
			stride := 1
			for _, d := range dims[di+1:] {
				stride *= d
			}
			for i := range l {
				if di == len(dims)-1 {
					l[i] = slip.Fixnum(int64(base + i - 3))
				} else {
					l[i] = build(di+1, base+i*stride)
				}
			}
			return l
		}
		return slip.NewArray(dims, slip.TrueSymbol, nil, build(0, 0), false)
	}
	for _, dims := range [][]int{{2, 2}, {1, 3}, {2, 1, 2}, {1, 1, 1, 1, 1, 1, 1, 1, 1, 2}, {1, 1, 1, 1, 1, 1, 1, 1, 1, 1, 1, 1, 1, 1, 1, 1, 3}} {
		for _, c := range []cfg{with(flat, func(c *cfg) { c.radix = true }), with(flat, func(c *cfg) { c.base, c.radix = 2, true }), with(pretty, func(c *cfg) { c.base, c.radix = 16, true }),
			with(pretty, func(c *cfg) { c.base, c.radix, c.margin = 8, true, 7 }), with(flat, func(c *cfg) { c.base, c.radix = 36, true }), with(flat, func(c *cfg) { c.base = 16 }), with(flat, func(c *cfg) { c.base = 3 })} {
			out = append(out, repairedCase{"C03-14", c, mk(dims)})
			out = append(out, repairedCase{"C03-14", c, slip.List{mk(dims), slip.Symbol("x")}})
		}
	}
	return
}

func firstValue(o slip.Object) slip.Object {
	if vs, ok := o.(slip.Values); ok {
		if len(vs) == 0 {
			return nil
		}
		return vs[0]
	}
	return o
}

func Run(ctx *common.Ctx) {
	// common.NewRng(seed) starts SplitMix64 at seed*increment: the streams of seeds k and k+1 are the same
	// stream shifted by one value and the generator falls into step after a few cases. Re-seed from a mixed value.
	ctx.Rng = common.NewRng(ctx.Rng.Next() ^ (ctx.Seed+0x632BE59BD9B4E019)*0xD6E8FEB86659FD93)
	writeTables(ctx)
	g := &gen{ctx: ctx}
	nrandom := 1500
	if ctx.Thorough() {
		nrandom = 20000
	}
	var terms []string
	var descs []any
	distinct := map[string]bool{}
	add := func(c cfg, o slip.Object, viaLisp bool) {
		term, d := g.runCase(c, o, viaLisp)
		ctx.Meta.Evaluations++
		if !distinct[term] {
			distinct[term] = true
		}
		terms = append(terms, term)
		descs = append(descs, d)
		if len(terms)%211 == 7 {
			ctx.Sample(d)
		}
	}
	// part A: every ASCII character and the boundary scalars, as a character, inside a string and as a
	// one-character symbol name, under a readable flat and a readable pretty configuration
	sweepCfgs := []cfg{
		{base: 10, pcase: "down", margin: -1, readably: true, escape: true, array: true},
		{base: 10, pcase: "none", pretty: true, margin: 20, readably: false, escape: true, array: true},
	}
	var sweep []rune
	for r := rune(0); r < 128; r++ {
		sweep = append(sweep, r)
	}
	sweep = append(sweep, boundaryScalars...)
	for _, r := range sweep {
		for i, c := range sweepCfgs {
			add(c, slip.Character(r), false)
			add(c, slip.String("a"+string(r)), i == 1)
			if r < 128 {
				add(c, slip.List{slip.Symbol(string(r)), slip.Symbol("x" + string(r))}, false)
				add(c, slip.Symbol(string(r)), false)
			}
			ctx.Hist("sweep:scalar")
		}
	}
	// part B: integers in every base with and without the radix prefix
	for base := 2; base <= 36; base++ {
		for _, radix := range []bool{true, false} {
			c := cfg{base: base, radix: radix, pcase: "down", margin: -1, readably: true, escape: true, array: true}
			for k := 0; k < 3; k++ {
				o, _ := g.integer()
				add(c, o, k == 0)
			}
			bi := new(big.Int).Exp(big.NewInt(int64(base)), big.NewInt(int64(1+ctx.Rng.Intn(30))), nil)
			bi.Sub(bi, big.NewInt(1))
			var o slip.Object = (*slip.Bignum)(bi)
			if bi.IsInt64() {
				o = slip.Fixnum(bi.Int64())
			}
			add(c, slip.List{o, slip.Fixnum(int64(base)), slip.Fixnum(-int64(base) + 1)}, false)
			big1 := new(big.Int).Exp(big.NewInt(int64(base)), big.NewInt(int64(14+ctx.Rng.Intn(20))), nil)
			big1.Add(big1, big.NewInt(int64(ctx.Rng.Intn(1000))))
			if ctx.Rng.Bool() {
				big1.Neg(big1)
			}
			add(c, (*slip.Bignum)(big1), false)
			ctx.Hist("sweep:base")
		}
	}
	// part C: random objects x random configurations
	for i := 0; i < nrandom; i++ {
		c := g.config()
		depth := ctx.Rng.Intn(4)
		g.safe = false
		if i%2 == 1 {
			// every other pair: a readable configuration and leaves chosen inside the guard, deeper nesting
			c = g.readableConfig()
			g.safe, g.cfg = true, c
			depth = 1 + ctx.Rng.Intn(4)
			ctx.Hist("pair:inside-guard-by-construction")
		} else {
			ctx.Hist("pair:unrestricted")
		}
		o := g.object(depth)
		add(c, o, ctx.Rng.Chance(40))
	}
	g.safe = false
	// part D: the swank wire: WriteWireMessage (default printer) / ReadWireMessage
	nwire := 120
	if ctx.Thorough() {
		nwire = 2000
	}
	for i := 0; i < nwire; i++ {
		g.safe, g.cfg, g.listsOnly = i%2 == 0, defaultCfg(), true
		o := g.object(ctx.Rng.Intn(4))
		g.safe, g.listsOnly = false, false
		term, d, ok := g.wireCase(o)
		if !ok {
			continue
		}
		ctx.Meta.Evaluations++
		distinct[term] = true
		terms = append(terms, term)
		descs = append(descs, d)
		ctx.Hist("wire:message")
	}
	// part E: the inputs of repaired findings (repo_fixes C03-2 ...), under the configurations that used to fail
	for _, rc := range repairedCases() {
		add(rc.c, rc.o, false)
		add(rc.c, rc.o, true)
		ctx.Hist("repaired:" + rc.id)
	}
	// part F: white space that is CONTENT (inside a |symbol|, a string, a character) against white space that is
	// LAYOUT: every content lexeme x every leaf carrier (vector / array, which createTree renders into a leaf buffer)
	// x every outer shape that places the carrier at a non-zero offset or wraps it, under *print-pretty* t
	for i, lc := range layoutContentCases(ctx.Thorough()) {
		add(lc.c, lc.o, i%3 == 0)
		ctx.Hist("layout-content:" + lc.id)
	}
	_ = utf8.RuneError
	ctx.Meta.DistinctNontrivial = len(distinct)
	ctx.Meta.Rule = "part A: every ASCII character and 15 boundary scalars as a character, inside a string, as a symbol name alone and in a list, under a flat readable and a pretty configuration; part B: integers (boundary, small, int64, up to 200 bits, base^k-1) in every base 2..36 with and without *print-radix*; part C: random objects (depth <= 3, lists, dotted lists, vectors, arrays of rank 2-3; integers, ratios, floats of the three formats, strings and characters over 24 scalar classes, 100 listed symbol names incl. ones needing |quoting| plus random ASCII names, nil, t) x random printer configuration (base 2..36, radix, case 4 values, pretty, right margin 1..200 or nil, readably, escape, array); 40% of the pairs go through write-to-string with every keyword and read-from-string; part E: for each of the thirteen repaired findings (repo_fixes C03-2..C03-14) objects of the shape that used to fail under the configurations that failed (number-like names, names needing bars in nested pretty lists under small margins, | \\ and control bytes, keywords, ?, non-ASCII names, the dot in every list position, nil/NIL, @-names, NUL, the sixteen characters printed by code, arrays of rank 2..17 under every radix prefix), each through Printer.Append and through write-to-string; part F (enumerated, not sampled; *print-pretty* t): 21 content lexemes (symbols, a keyword and strings with a newline / return / tab / doubled blank at the start, in the middle, at the end, twice, next to a parenthesis; the characters Newline Space Tab) x 8 carriers (vector with the lexeme last / only / first, 2x2 and 2x1x1 array, vector in vector, list in vector, plain list as control) x 7 outer shapes (only element, second element, first of an inner list, wrapped two levels deep, before a dotted tail, list in a top-level vector, top level as control) x 2 of the 8 (right margin 1/12/30/nil, *print-readably* t/nil) configurations in rotation (all 8 in the thorough tier); distinct = distinct (configuration, object, text, read-back) terms"
	header := "From C03 Require Import Model Spec Corr.\nLocal Open Scope N_scope.\n"
	footer := "Definition res := Eval vm_compute in check_all cases.\nPrint res.\nDefinition gcount := Eval vm_compute in guard_count cases.\nPrint gcount.\nDefinition outside := Eval vm_compute in outside_failures cases.\nPrint outside.\nDefinition textdiff := Eval vm_compute in text_differences cases.\nPrint textdiff.\nDefinition drift := Eval vm_compute in drift_outside_guard cases.\nPrint drift.\n"
	ctx.WriteShards("cases", header, "case", footer, terms, descs, 16)
	ctx.ReplayKnownLisp()
}
