package c03

import (
	"fmt"
	"go/ast"
	"go/parser"
	"go/token"
	"os"
	"path/filepath"
	"strconv"
	"strings"

	"verifharness/common"
)

// The translator: the reader's mode tables, escByteMap and hexByteValues (code.go) and needPipeMap
// (printer.go) are constant string expressions; they are re-read from the working tree on every run and
// written as Gallina lists (gen/C03/Tables.v, module GenC03.Tables). coq/C03/TableProofs.v then proves
// that the tables the model was built from (coq/C03/Tables.v) are these.
var modeNames = [][2]string{
	{"valueMode", "MValue"}, {"commentMode", "MComment"}, {"tokenMode", "MToken"}, {"stringMode", "MString"},
	{"symbolMode", "MSymbol"}, {"escMode", "MEsc"}, {"runeMode", "MRune"}, {"sharpMode", "MSharp"},
	{"charMode", "MChar"}, {"intMode", "MInt"}, {"sharpNumMode", "MSharpNum"}, {"mustArrayMode", "MMustArray"},
	{"bitVectorMode", "MBitVector"}, {"blockCommentMode", "MBlockComment"}, {"blockEndMode", "MBlockEnd"},
}

func constString(e ast.Expr) (string, bool) {
	switch t := e.(type) {
	case *ast.BasicLit:
		if t.Kind == token.STRING {
			s, err := strconv.Unquote(t.Value)
			return s, err == nil
		}
	case *ast.BinaryExpr:
		if t.Op == token.ADD {
			a, ok1 := constString(t.X)
			b, ok2 := constString(t.Y)
			return a + b, ok1 && ok2
		}
	case *ast.ParenExpr:
		return constString(t.X)
	case *ast.CallExpr: // a table wrapped in a constructor, e.g. newModeTable("..." + "...")
		if len(t.Args) == 1 {
			return constString(t.Args[0])
		}
	}
	return "", false
}

func constStrings(path string) (map[string]string, error) {
	fset := token.NewFileSet()
	f, err := parser.ParseFile(fset, path, nil, 0)
	if err != nil {
		return nil, err
	}
	found := map[string]string{}
	for _, d := range f.Decls {
		gd, ok := d.(*ast.GenDecl)
		if !ok || (gd.Tok != token.CONST && gd.Tok != token.VAR) {
			continue
		}
		for _, sp := range gd.Specs {
			vs := sp.(*ast.ValueSpec)
			for i, n := range vs.Names {
				if i < len(vs.Values) {
					if s, ok := constString(vs.Values[i]); ok {
						found[n.Name] = s
					}
				}
			}
		}
	}
	return found, nil
}

func gtable(tbl string) string {
	xs := make([]string, 256)
	for i := 0; i < 256; i++ {
		xs[i] = fmt.Sprint(tbl[i])
	}
	return "[" + strings.Join(xs, ";") + "]"
}

// writeTables returns, for the replay, a description of every table entry that differs from the tables the
// model was built from is left to Coq; here only missing tables are reported.
func writeTables(ctx *common.Ctx) {
	code, err := constStrings(common.RepoDir() + "/code.go")
	if err != nil {
		panic("c03 translator: cannot parse code.go: " + err.Error())
		return
	}
	prn, err := constStrings(common.RepoDir() + "/printer.go")
	if err != nil {
		panic("c03 translator: cannot parse printer.go: " + err.Error())
		return
	}
	var sb strings.Builder
	sb.WriteString("(* regenerated from code.go and printer.go of the working tree on every run by harness/c03 *)\nFrom C02 Require Import Model.\nLocal Open Scope N_scope.\n")
	get := func(m map[string]string, name string) string {
		t, ok := m[name]
		if !ok || len(t) < 256 {
			panic(fmt.Sprintf("c03 translator: table %s not found in the source (or shorter than 256 bytes: %d); the translator must be adapted to the new source layout", name, len(t)))
			return strings.Repeat(".", 256)
		}
		return t
	}
	var cases []string
	for _, mn := range modeNames {
		fmt.Fprintf(&sb, "Definition g_%s : list N := %s.\n", mn[1], gtable(get(code, mn[0])))
		cases = append(cases, fmt.Sprintf("  | %s => g_%s", mn[1], mn[1]))
	}
	sb.WriteString("Definition tables : mode -> list N := fun m => match m with\n" + strings.Join(cases, "\n") + "\n  end.\n")
	fmt.Fprintf(&sb, "Definition g_esc : list N := %s.\n", gtable(get(code, "escByteMap")))
	fmt.Fprintf(&sb, "Definition g_hex : list N := %s.\n", gtable(get(code, "hexByteValues")))
	fmt.Fprintf(&sb, "Definition g_needpipe : list N := %s.\n", gtable(get(prn, "needPipeMap")))
	if err := os.WriteFile(filepath.Join(ctx.OutDir, "Tables.v"), []byte(sb.String()), 0o644); err != nil {
		panic(err)
	}
}
