// Package c08: generated multi-definition programs (callers before callees, mutual recursion) are
// read into code objects and taken through histories of {Code.Compile, Code.Eval the same object k
// times, definitions loaded in any order, redefinition between evaluations}.  What is observed per
// evaluation of a code object is its result (or condition class) and the ordered list of values passed
// to the observer function `emit`.  The histories go to Coq (model M and specification S); variants of
// one program (other definition order, compiled or not) are also compared with each other directly.
package c08

import (
	"fmt"
	"strings"
	"time"

	"github.com/ohler55/slip"
	"verifharness/common"
)

// ---- the observer ---------------------------------------------------------------------------

var trace []slip.Object

// Emit is a Go built-in with evaluated arguments: (emit x) records x and returns it.
type Emit struct{ slip.Function }

func (f *Emit) Call(s *slip.Scope, args slip.List, depth int) slip.Object {
	slip.CheckArgCount(s, depth, f, args, 1, 1)
	trace = append(trace, args[0])
	return args[0]
}

var emitDefined = false

func defineEmit() {
	if emitDefined {
		return
	}
	emitDefined = true
	slip.Define(
		func(args slip.List) slip.Object {
			f := Emit{Function: slip.Function{Name: "emit", Args: args}}
			f.Self = &f
			return &f
		},
		&slip.FuncDoc{Name: "emit", Args: []*slip.DocArg{{Name: "value", Type: "object"}}, Return: "object",
			Text: "verification observer"}, &slip.UserPkg)
}

// ---- abstract syntax ------------------------------------------------------------------------

type node struct {
	fname  bool // a symbol naming a user function: may be written in another case
	isList bool
	isInt  bool
	z      int64
	sym    string
	xs     []*node
}

func I(z int64) *node     { return &node{isInt: true, z: z} }
func Y(s string) *node    { return &node{sym: s} }
func L(xs ...*node) *node { return &node{isList: true, xs: xs} }
func call(f string, xs ...*node) *node {
	return L(append([]*node{Y(f)}, xs...)...)
}
func F(s string) *node { return &node{sym: s, fname: true} }
func ucall(f string, xs ...*node) *node {
	return L(append([]*node{F(f)}, xs...)...)
}

// caseRng decides how a function name is spelled in the Lisp text (the model sees the lower-case name:
// function names are case-insensitive)
var caseRng *common.Rng

// mixedCaseNames relies on repo fix C08-2 (defun registers the lower-case name); set it to false if that fix is
// not taken: the defect is then a known finding and function names must be written in lower case only.
const mixedCaseNames = true

func spell(s string) string {
	if caseRng == nil || !mixedCaseNames {
		return s
	}
	switch x := caseRng.Intn(100); {
	case x < 6:
		return strings.ToUpper(s)
	case x < 12:
		return strings.ToUpper(s[:1]) + s[1:]
	case x < 15:
		return s[:len(s)-1] + strings.ToUpper(s[len(s)-1:])
	}
	return s
}

// inst renders a form as Lisp text and as a Gallina term; every list gets the next identity, in reader order.
func inst(n *node, next *int, lisp, gal *strings.Builder) {
	switch {
	case n.isInt:
		fmt.Fprintf(lisp, "%d", n.z)
		fmt.Fprintf(gal, "SInt (%d)%%Z", n.z)
	case !n.isList:
		if n.fname {
			lisp.WriteString(spell(n.sym))
		} else {
			lisp.WriteString(n.sym)
		}
		fmt.Fprintf(gal, "SSym \"%s\"", n.sym)
	default:
		id := *next
		*next++
		lisp.WriteByte('(')
		fmt.Fprintf(gal, "SList %d [", id)
		for i, x := range n.xs {
			if i > 0 {
				lisp.WriteByte(' ')
				gal.WriteString("; ")
			}
			inst(x, next, lisp, gal)
		}
		lisp.WriteByte(')')
		gal.WriteByte(']')
	}
}

// ---- program generator ------------------------------------------------------------------------

type fn struct {
	name   string
	level  int
	params []string // first is always n
}

type gen struct {
	ctx        *common.Ctx
	shared     []string // names used both as parameters of some functions and as package variables
	bareGlobal bool     // some body has a bare symbol that is not a parameter (repaired finding C08-bare-symbol-body)
	fns        []*fn
	calls      int    // user calls generated in the current body / main (bounded)
	undef      string // name of a function that is never defined
	undefCalls int
	initForms  bool // some variable definition has an init form that is not a literal
	hasLet     bool // some function definition is wrapped in a let (closure)
}

var pool = []string{"a", "b", "c"}

func (g *gen) r(n int) int { return g.ctx.Rng.Intn(n) }

// userCall builds a call of target. inBody: the caller (nil for a main form); guarded: inside the branch of
// (if (< n 1) ..) that may recurse.
func (g *gen) userCall(target *fn, self *fn, guarded bool, depth int) *node {
	g.calls++
	var first *node
	switch {
	case self == nil:
		first = I(int64(g.r(3)))
	case guarded:
		first = call("-", Y("n"), I(1))
	default:
		first = Y("n")
	}
	args := []*node{first}
	want := len(target.params) - 1
	k := want
	x := g.r(100)
	if x < 3 {
		k = want + 1 // too many: error
	} else if x < 7 && want > 0 {
		k = want - 1 // too few: error (since the repair C04-8; before, the parameter stayed unbound or was found in the caller)
	}
	for i := 0; i < k; i++ {
		args = append(args, g.exprT(self, guarded, depth+1, g.r(100) < 85))
	}
	return ucall(target.name, args...)
}

// lst: a form whose value is a list, often an EMPTY LIST OBJECT (not nil): (list), (rest (list x))
func (g *gen) lst(self *fn, guarded bool, depth int) *node {
	switch x := g.r(100); {
	case x < 25:
		return call("list")
	case x < 50:
		return call("rest", call("list", g.exprT(self, guarded, depth+1, true)))
	case x < 65:
		return call("rest", call("list", g.exprT(self, guarded, depth+1, true), g.atom(self)))
	case x < 75:
		return call("rest", call("rest", call("list", I(int64(g.r(7))), g.atom(self))))
	case x < 85:
		return call("rest", g.atom(self))
	case x < 92:
		return call("rest", Y("nil"))
	default:
		return call("progn", call("emit", I(int64(g.r(7)))), call("list"))
	}
}

func (g *gen) atom(self *fn) *node {
	if len(g.shared) > 0 && g.r(100) < 9 {
		return Y(g.shared[g.r(len(g.shared))]) // a parameter of this name, or the package variable
	}
	if self != nil && g.r(100) < 60 {
		ps := self.params
		if g.r(100) < 4 {
			return Y(common.Pick(g.ctx.Rng, pool)) // possibly not a parameter of this function
		}
		return Y(ps[g.r(len(ps))])
	}
	return I(int64(g.r(7)))
}

// mv wraps an expression into a form that returns multiple values whose first value is (a function of) it
func (g *gen) mv(e *node) *node {
	switch g.r(5) {
	case 0:
		return call("floor", e, I(int64(2+g.r(3))))
	case 1:
		return call("values", e)
	case 2:
		return call("values", e, call("emit", I(int64(g.r(7)))))
	case 3:
		return call("values", e, I(int64(g.r(7))), I(int64(g.r(7))))
	default:
		return call("values", e, Y("nil"))
	}
}

func (g *gen) expr(self *fn, guarded bool, depth int) *node {
	return g.exprT(self, guarded, depth, false)
}

// exprT: num asks for something that is (most probably) a number
func (g *gen) exprT(self *fn, guarded bool, depth int, num bool) *node {
	e := g.exprU(self, guarded, depth, num)
	// multiple-value producers in every position (argument of built-ins and user functions, test and
	// branches of if, whole bodies, main forms); floor needs a number
	if x := g.r(100); x < 11 {
		if num || e.isInt {
			return g.mv(e)
		}
		return call("values", e, I(int64(g.r(7))))
	} else if x < 13 && !num {
		return common.Pick(g.ctx.Rng, []*node{call("values"), Y("nil"), Y("t"), call("values", Y("nil"), I(1))})
	}
	return e
}

func (g *gen) exprU(self *fn, guarded bool, depth int, num bool) *node {
	if depth >= 3 {
		return g.atom(self)
	}
	x := g.r(100)
	switch {
	case x < 22:
		return g.atom(self)
	case x < 34:
		return call("+", g.exprT(self, guarded, depth+1, true), g.exprT(self, guarded, depth+1, true))
	case x < 40:
		return call("-", g.exprT(self, guarded, depth+1, true), g.exprT(self, guarded, depth+1, true))
	case x < 50:
		if num && g.r(10) > 0 {
			return g.atom(self)
		}
		return call("list", g.expr(self, guarded, depth+1), g.expr(self, guarded, depth+1))
	case x < 60:
		return call("emit", g.exprT(self, guarded, depth+1, num))
	case x < 66:
		return call("progn", g.expr(self, guarded, depth+1), g.exprT(self, guarded, depth+1, num))
	case x < 71:
		// case: the key is an evaluated argument, the clauses are not (SkipEval {false, true}); the forms of
		// the selected clause are converted in place inside the clause list
		cl := []*node{Y("case"), g.exprT(self, guarded, depth+1, true)}
		nc := 1 + g.r(3)
		for i := 0; i < nc; i++ {
			var key *node
			if g.r(3) == 0 {
				key = L(I(int64(g.r(7))), I(int64(g.r(7))))
			} else {
				key = I(int64(g.r(7)))
			}
			forms := []*node{key}
			for j := g.r(3); j >= 0 && len(forms) < 3; j-- {
				forms = append(forms, g.exprT(self, guarded, depth+1, num))
			}
			cl = append(cl, L(forms...))
		}
		if g.r(2) == 0 {
			cl = append(cl, L(Y("t"), g.exprT(self, guarded, depth+1, num)))
		}
		return L(cl...)
	case x < 72 && !num:
		return g.lst(self, guarded, depth)
	case x == 72 || (x == 73 && g.r(2) == 0):
		// a call of a function that is never defined, with arguments that have side effects or signal: compiled
		// code (a placeholder call) evaluates the arguments first, the list form signals undefined-function at
		// once - both allowed (CLHS 3.1.2.1.2.3); the model must say which one happens
		g.undefCalls++
		var args []*node
		for i, n := 0, g.r(3); i < n; i++ {
			switch g.r(4) {
			case 0:
				args = append(args, call("emit", I(int64(g.r(7)))))
			case 1:
				args = append(args, call("+", I(1), call("list", I(2)))) // type-error
			case 2:
				args = append(args, call("emit", g.exprT(self, guarded, depth+1, true)))
			default:
				args = append(args, g.exprT(self, guarded, depth+1, num))
			}
		}
		return ucall(g.undef, args...)
	case x < 77:
		c := call("<", g.exprT(self, guarded, depth+1, true), I(int64(g.r(5))))
		if g.r(100) < 35 {
			// the test is a list-valued form: an empty list object counts as false (EvalArg turns it into nil)
			c = g.lst(self, guarded, depth+1)
		}
		if g.r(4) == 0 {
			return call("if", c, g.exprT(self, guarded, depth+1, num))
		}
		return call("if", c, g.exprT(self, guarded, depth+1, num), g.exprT(self, guarded, depth+1, num))
	default:
		// a user call
		if g.calls >= 2 {
			return g.atom(self)
		}
		var cands []*fn
		for _, f := range g.fns {
			if self == nil || guarded || f.level < self.level {
				cands = append(cands, f)
			}
		}
		if len(cands) == 0 {
			return g.atom(self)
		}
		return g.userCall(cands[g.r(len(cands))], self, guarded, depth)
	}
}

// body of a function: optional strict part, and a recursion guarded by (if (< n 1) base rec)
func (g *gen) body(f *fn) []*node {
	g.calls = 0
	var forms []*node
	if g.r(100) < 30 {
		forms = append(forms, call("emit", Y(f.params[g.r(len(f.params))])))
	}
	if g.r(100) < 22 {
		// bodies that are bare symbols: a parameter, a name shared with a package variable, some other name
		// (Lambda.Compile decides between the parameter and the package variable)
		n := 1 + g.r(2)
		for i := 0; i < n; i++ {
			var sym string
			switch x := g.r(100); {
			case x < 78:
				sym = f.params[g.r(len(f.params))]
				// prefer a parameter whose name is also that of a package variable
				for _, q := range f.params {
					if strings.Contains(q, "v") && len(q) > 2 && g.r(100) < 60 {
						sym = q
					}
				}
			case x < 96 && len(g.shared) > 0:
				sym = g.shared[g.r(len(g.shared))]
			default:
				// a name that is never a parameter nor defined as a variable (unique per program: Lambda.Compile
				// creates a package variable for it, and the package is shared by all cases of a run)
				sym = g.shared[0] + "u"
			}
			isParam := false
			for _, q := range f.params {
				isParam = isParam || q == sym
			}
			g.bareGlobal = g.bareGlobal || !isParam
			forms = append(forms, Y(sym))
		}
		return forms
	}
	var main *node
	rec := func() *node {
		return call("if", call("<", Y("n"), I(1)), g.expr(f, false, 1), g.expr(f, true, 1))
	}
	switch x := g.r(100); {
	case x < 35:
		main = rec()
	case x < 60:
		main = call(common.Pick(g.ctx.Rng, []string{"+", "list", "progn"}), g.expr(f, false, 1), rec())
	case x < 80:
		// a direct call in argument position of the body form: compiled when the defun is evaluated
		var lower []*fn
		for _, h := range g.fns {
			if h.level < f.level {
				lower = append(lower, h)
			}
		}
		if len(lower) > 0 {
			main = g.userCall(lower[g.r(len(lower))], f, false, 1)
			if g.r(2) == 0 {
				main = call(common.Pick(g.ctx.Rng, []string{"list", "+", "emit", "progn"}), main)
			}
		} else {
			main = g.expr(f, false, 0)
		}
	default:
		main = g.expr(f, false, 0)
	}
	if !main.isList {
		main = call("progn", main) // a bare symbol as a body form is outside the modelled fragment
	}
	return append(forms, main)
}

func (g *gen) defun(f *fn) *node {
	ps := make([]*node, len(f.params))
	for i, p := range f.params {
		ps[i] = Y(p)
	}
	d := L(append([]*node{Y("defun"), F(f.name), L(ps...)}, g.body(f)...)...)
	if g.r(100) < 7 {
		// the definition inside a let that binds names the bodies use as free variables (the shared names, one of
		// the usual parameter names): the function gets the let's scope as its closure; a later top-level
		// definition of the same function must not keep it
		g.hasLet = true
		var bs []*node
		for _, v := range g.shared {
			if g.r(100) < 70 {
				bs = append(bs, L(Y(v), I(int64(200+g.r(100)))))
			}
		}
		if len(bs) == 0 || g.r(100) < 30 {
			bs = append(bs, L(Y(common.Pick(g.ctx.Rng, pool)), I(int64(300+g.r(100)))))
		}
		return L(Y("let"), L(bs...), d)
	}
	return d
}

// varDef: (defvar|defparameter v init): a literal, or a form that is evaluated when the definition is - in
// Code.Compile's first loop for a compiled code object - with the function definitions made so far
func (g *gen) varDef(kinds []string, v string) *node {
	var init *node
	switch x := g.r(100); {
	case x < 78:
		init = I(int64(10 + g.r(90)))
	case x < 92 && len(g.fns) > 0:
		g.initForms = true
		g.calls = 0
		init = g.userCall(g.fns[g.r(len(g.fns))], nil, false, 1)
		if g.r(3) == 0 {
			init = call(common.Pick(g.ctx.Rng, []string{"+", "emit", "list", "values"}), init)
		}
	default:
		g.initForms = true
		g.calls = 0
		init = g.exprT(nil, false, 1, g.r(3) > 0)
	}
	return L(Y(common.Pick(g.ctx.Rng, kinds)), Y(v), init)
}

func (g *gen) mainForm() *node {
	g.calls = 0
	if g.r(100) < 70 {
		t := g.fns[g.r(len(g.fns))]
		c := g.userCall(t, nil, false, 1)
		if g.r(100) < 40 {
			return call(common.Pick(g.ctx.Rng, []string{"list", "emit", "progn", "+"}), c)
		}
		return c
	}
	e := g.expr(nil, false, 0)
	if !e.isList {
		e = call("progn", e) // Code.Eval skips a top-level nil; atoms at top level are not in the fragment
	}
	return e
}

// ---- running on the implementation -------------------------------------------------------------

type opRec struct {
	Op      string `json:"op"`
	Code    int    `json:"code"`
	Lisp    string `json:"lisp,omitempty"`
	Outcome string `json:"outcome,omitempty"`
}

func gvalue(o slip.Object) (string, string) {
	switch tv := o.(type) {
	case nil:
		return "VNil", "nil"
	case slip.Fixnum:
		return fmt.Sprintf("VInt (%d)%%Z", int64(tv)), fmt.Sprint(int64(tv))
	case slip.Symbol:
		return fmt.Sprintf("VSym \"%s\"", strings.ToLower(string(tv))), strings.ToLower(string(tv))
	case slip.Values:
		var gs, ss []string
		for _, e := range tv {
			a, b := gvalue(e)
			gs = append(gs, a)
			ss = append(ss, b)
		}
		return "VVals [" + strings.Join(gs, "; ") + "]", "#values(" + strings.Join(ss, " ") + ")"
	case slip.List:
		if len(tv) == 0 {
			return "VList []", "()" // an empty list object is not nil
		}
		var gs, ss []string
		for _, e := range tv {
			a, b := gvalue(e)
			gs = append(gs, a)
			ss = append(ss, b)
		}
		return "VList [" + strings.Join(gs, "; ") + "]", "(" + strings.Join(ss, " ") + ")"
	default:
		if o == slip.True {
			return "VT", "t"
		}
		if o == slip.Unbound {
			return "VUnbound", "<unbound>"
		}
		s := slip.ObjectString(o)
		clean := strings.Map(func(r rune) rune {
			if r == '"' || r < 32 || r > 126 {
				return '?'
			}
			return r
		}, s)
		return fmt.Sprintf("VSym \"?%s\"", clean), "?" + clean
	}
}

func classify(r any) (string, string) {
	cls, msg := "go-panic", fmt.Sprint(r)
	switch tr := r.(type) {
	case *slip.Panic:
		cls = "error"
		if tr.Condition != nil {
			cls = string(tr.Condition.Hierarchy()[0])
		}
		msg = tr.Message
	case slip.Instance:
		cls = string(tr.Hierarchy()[0])
		if mv, has := tr.SlotValue(slip.Symbol("message")); has {
			if ms, ok := mv.(slip.String); ok {
				msg = string(ms)
			}
		}
	}
	switch {
	case common.Fault(msg):
		return "Err EOther", "!fault " + msg
	case cls == "unbound-variable":
		return "Err EUnbound", "!unbound-variable"
	case cls == "undefined-function":
		return "Err EUndefined", "!undefined-function"
	case cls == "type-error":
		return "Err EType", "!type-error"
	case strings.Contains(msg, "Too many arguments to"):
		return "Err ETooMany", "!too-many-arguments"
	case strings.Contains(msg, "Too few arguments to"):
		return "Err ETooFew", "!too-few-arguments"
	}
	return "Err EOther", "!" + cls + " " + msg
}

type outcome struct {
	gal, show string
}

func runCode(scope *slip.Scope, code slip.Code) (out outcome) {
	return observe(func() slip.Object { return code.Eval(scope, nil) })
}

// compileCode: Code.Compile evaluates the top-level definitions - the init forms of defvar/defparameter included -
// so it has an outcome too: nil, or the condition that left it, and what the init forms emitted.
func compileCode(code slip.Code) (out outcome) {
	return observe(func() slip.Object { code.Compile(); return nil })
}

func observe(f func() slip.Object) (out outcome) {
	trace = trace[:0]
	res, shown := "", ""
	func() {
		defer func() {
			if r := recover(); r != nil {
				res, shown = classify(r)
			}
		}()
		v := f()
		a, b := gvalue(v)
		res, shown = "Val ("+a+")", b
	}()
	var gs, ss []string
	for _, t := range trace {
		a, b := gvalue(t)
		gs = append(gs, a)
		ss = append(ss, b)
	}
	return outcome{gal: "(" + res + ", [" + strings.Join(gs, "; ") + "])", show: shown + "  emitted[" + strings.Join(ss, " ") + "]"}
}

// ---- histories ---------------------------------------------------------------------------------

type hist struct {
	scope  *slip.Scope
	next   int
	codes  map[int]slip.Code
	gops   []string
	gobs   []string
	recs   []opRec
	mains  []string // outcomes of the runs of the code object holding the main forms, in order
	failed bool
	fmaks  int
}

func (h *hist) load(cid int, forms []*node) {
	var lisp, gal strings.Builder
	gal.WriteString("[")
	for i, f := range forms {
		if i > 0 {
			lisp.WriteString(" ")
			gal.WriteString("; ")
		}
		inst(f, &h.next, &lisp, &gal)
	}
	gal.WriteString("]")
	rec := opRec{Op: "load", Code: cid, Lisp: lisp.String()}
	func() {
		defer func() {
			if r := recover(); r != nil {
				h.failed = true
				rec.Outcome = fmt.Sprint("read failed: ", r)
			}
		}()
		h.codes[cid] = slip.ReadString(lisp.String(), h.scope)
	}()
	h.gops = append(h.gops, fmt.Sprintf("OLoad %d %s", cid, gal.String()))
	h.recs = append(h.recs, rec)
}

func (h *hist) compile(cid int) {
	ch := make(chan outcome, 1)
	go func() { ch <- compileCode(h.codes[cid]) }()
	var o outcome
	select {
	case o = <-ch:
	case <-time.After(10 * time.Second):
		o = outcome{gal: "(Err EOther, [])", show: "!timeout"}
		h.failed = true
	}
	h.gops = append(h.gops, fmt.Sprintf("OCompile %d", cid))
	h.gobs = append(h.gobs, o.gal)
	h.recs = append(h.recs, opRec{Op: "compile", Code: cid, Outcome: o.show})
}

// defName: the function a definition form defines ("" for a variable definition)
func defName(d *node) string {
	if d.isList && len(d.xs) > 1 && d.xs[0].sym == "defun" {
		return d.xs[1].sym
	}
	if d.isList && len(d.xs) == 3 && d.xs[0].sym == "let" {
		return defName(d.xs[2])
	}
	return ""
}

// fmak evaluates (fmakunbound 'name) at top level; the model gets the operation OFmak (no observation)
func (h *hist) fmak(name string) {
	rec := opRec{Op: "fmakunbound", Lisp: "(fmakunbound '" + name + ")"}
	func() {
		defer func() {
			if r := recover(); r != nil {
				h.failed = true
				_, rec.Outcome = classify(r)
			}
		}()
		slip.ReadString(rec.Lisp, h.scope).Eval(h.scope, nil)
	}()
	h.fmaks++
	h.gops = append(h.gops, fmt.Sprintf("OFmak \"%s\"", strings.ToLower(name)))
	h.recs = append(h.recs, rec)
}

func (h *hist) run(cid int, isMain bool) {
	ch := make(chan outcome, 1)
	go func() { ch <- runCode(h.scope, h.codes[cid]) }()
	var o outcome
	select {
	case o = <-ch:
	case <-time.After(10 * time.Second):
		o = outcome{gal: "(Err EOther, [])", show: "!timeout"}
		h.failed = true
	}
	h.gops = append(h.gops, fmt.Sprintf("ORun %d", cid))
	h.gobs = append(h.gobs, o.gal)
	h.recs = append(h.recs, opRec{Op: "run", Code: cid, Outcome: o.show})
	if isMain {
		h.mains = append(h.mains, o.show)
	}
}

func perm(ctx *common.Ctx, n int) []int {
	p := make([]int, n)
	for i := range p {
		p[i] = i
	}
	for i := n - 1; i > 0; i-- {
		j := ctx.Rng.Intn(i + 1)
		p[i], p[j] = p[j], p[i]
	}
	return p
}

var caseNo = 0

// program: definitions (in level order), redefinitions, main forms; names carry the case number and a
// variant letter so that variants of one program do not share the (global) function table
type program struct {
	fns        []*fn
	defs       []*node
	redefs     [][]*node // rounds of redefinitions
	redefI     [][]int
	mains      []*node
	bareGlobal bool
	undefCalls int
	initForms  bool
	hasLet     bool
}

func rename(n *node, from, to string) *node {
	if !n.isList {
		if !n.isInt && strings.Contains(n.sym, from) {
			return &node{sym: strings.Replace(n.sym, from, to, 1), fname: n.fname}
		}
		return n
	}
	xs := make([]*node, len(n.xs))
	for i, x := range n.xs {
		xs[i] = rename(x, from, to)
	}
	return L(xs...)
}

func genProgram(ctx *common.Ctx, prefix string) *program {
	g := &gen{ctx: ctx, undef: prefix + "z"}
	for i, ns := 0, 1+ctx.Rng.Intn(2); i < ns; i++ {
		g.shared = append(g.shared, fmt.Sprintf("%sv%d", prefix, i))
	}
	nf := 2 + ctx.Rng.Intn(4)
	for i := 0; i < nf; i++ {
		// names that share a prefix with special operators and defining forms (Code.Compile and CompileList
		// look at the head symbol's name)
		pre := common.Pick(ctx.Rng, []string{"", "", "", "def", "def", "default-", "defun-", "defvar-", "let", "let*", "set", "setq-", "if-", "lambda-", "quote-", "progn"})
		f := &fn{name: fmt.Sprintf("%s%s%c", pre, prefix, 'a'+i), level: i, params: []string{"n"}}
		np := ctx.Rng.Intn(3)
		for j := 0; j < np; j++ {
			if j < len(g.shared) && ctx.Rng.Chance(40) {
				f.params = append(f.params, g.shared[j])
			} else {
				f.params = append(f.params, pool[j])
			}
		}
		g.fns = append(g.fns, f)
	}
	p := &program{fns: g.fns}
	for _, f := range g.fns {
		p.defs = append(p.defs, g.defun(f))
	}
	// package variables named like parameters: at most one definition per name, so that the order of the
	// definitions (they are permuted together with the functions: before and after them) does not matter
	for _, v := range g.shared {
		if ctx.Rng.Chance(75) {
			p.defs = append(p.defs, g.varDef([]string{"defvar", "defvar", "defparameter"}, v))
		}
	}
	rounds := ctx.Rng.Intn(4) // up to three redefinitions of a function, with callers compiled in between
	for r := 0; r < rounds; r++ {
		var ds []*node
		var is []int
		for _, v := range g.shared {
			if ctx.Rng.Chance(35) {
				ds = append(ds, g.varDef([]string{"defvar", "defparameter", "defparameter"}, v))
			}
		}
		for i, f := range g.fns {
			if ctx.Rng.Chance(40) {
				ds = append(ds, g.defun(f))
				is = append(is, i)
			}
		}
		if len(ds) == 0 {
			i := ctx.Rng.Intn(nf)
			ds, is = append(ds, g.defun(g.fns[i])), append(is, i)
		}
		p.redefs = append(p.redefs, ds)
		p.redefI = append(p.redefI, is)
	}
	nm := 1 + ctx.Rng.Intn(3)
	for i := 0; i < nm; i++ {
		p.mains = append(p.mains, g.mainForm())
	}
	p.bareGlobal = g.bareGlobal
	p.undefCalls = g.undefCalls
	p.initForms = g.initForms
	p.hasLet = g.hasLet
	return p
}

const (
	tDirect = iota
	tCompile
	tSplit
	tMainsFirst
	tRedefine
	tBetween
	tRepl
	nTemplates
	// tFinal is only used as the second variant of a redefine-between-runs group: all definitions and all
	// redefinitions, in order, and the main forms in ONE code object
	tFinal = nTemplates
)

var tnames = []string{"one-object", "one-object-compiled", "defs-then-mains", "mains-compiled-before-defs", "redefine-between-runs", "mains-between-defs", "repl-one-form-per-object", "defs-redefs-mains-one-object"}

// play runs one history of the given template over program p (already renamed for this variant)
func play(ctx *common.Ctx, p *program, tmpl int, order []int, compileMains bool, k int) *hist {
	h := &hist{scope: slip.NewScope(), next: 1, codes: map[int]slip.Code{}}
	defs := make([]*node, len(order))
	for i, j := range order {
		defs[i] = p.defs[j]
	}
	switch tmpl {
	case tDirect, tCompile:
		h.load(0, append(append([]*node{}, defs...), p.mains...))
		if tmpl == tCompile {
			h.compile(0)
		}
		for i := 0; i < k; i++ {
			h.run(0, true)
		}
	case tSplit:
		h.load(0, defs)
		if compileMains && ctx.Rng.Bool() {
			h.compile(0)
		}
		h.run(0, false)
		h.load(1, p.mains)
		if compileMains {
			h.compile(1)
		}
		for i := 0; i < k; i++ {
			h.run(1, true)
		}
	case tMainsFirst:
		h.load(1, p.mains)
		if compileMains {
			h.compile(1)
		}
		h.run(1, false)
		h.load(0, defs)
		h.run(0, false)
		for i := 0; i < k; i++ {
			h.run(1, true)
		}
	case tRedefine:
		h.load(0, defs)
		h.run(0, false)
		h.load(1, p.mains)
		if compileMains {
			h.compile(1)
		}
		for i := 0; i < 1+k/2; i++ {
			h.run(1, len(p.redefs) == 0)
		}
		for r, ds := range p.redefs {
			if x := ctx.Rng.Intn(100); x < 30 {
				// fmakunbound of a function the round redefines, its new definition first in the round's object
				// (inside the guard when the new body does not mention the name)
				for i, d := range ds {
					if nm := defName(d); nm != "" {
						ds = append([]*node{d}, append(append([]*node{}, ds[:i]...), ds[i+1:]...)...)
						h.fmak(nm)
						ctx.Hist("fmakunbound:before-redefinition")
						break
					}
				}
			} else if x < 38 {
				// anywhere: callers compiled earlier keep the old definition (known findings; judged by the model)
				if nm := defName(p.defs[ctx.Rng.Intn(len(p.defs))]); nm != "" {
					h.fmak(nm)
					ctx.Hist("fmakunbound:anywhere")
				}
			}
			h.load(2+r, ds)
			if ctx.Rng.Chance(30) {
				h.compile(2 + r)
			}
			h.run(2+r, false)
			for i := 0; i < 1+k/3; i++ {
				// after the last round the main forms see the final definitions: compared with tFinal
				h.run(1, r == len(p.redefs)-1)
			}
			if ctx.Rng.Chance(30) {
				// a fresh reading of the main forms after the redefinition
				h.load(10+r, p.mains)
				h.run(10+r, false)
			}
		}
	case tRepl:
		// the way the REPL and load work: every form is read, compiled and evaluated on its own
		cid := 0
		one := func(f *node, isMain bool) {
			h.load(cid, []*node{f})
			if ctx.Rng.Chance(85) {
				h.compile(cid)
			}
			h.run(cid, isMain)
			cid++
		}
		for _, d := range defs {
			one(d, false)
		}
		for _, m := range p.mains {
			one(m, false)
		}
		for _, ds := range p.redefs {
			for _, d := range ds {
				one(d, false)
			}
			for _, m := range p.mains {
				one(m, false)
			}
		}
	case tFinal:
		forms := append([]*node{}, defs...)
		for _, ds := range p.redefs {
			forms = append(forms, ds...)
		}
		h.load(0, append(forms, p.mains...))
		if compileMains {
			h.compile(0)
		}
		for i := 0; i < k; i++ {
			h.run(0, true)
		}
	case tBetween:
		// the main forms (top-level calls with side effects) at random places between the definitions
		forms := append([]*node{}, defs...)
		for _, m := range p.mains {
			at := ctx.Rng.Intn(len(forms) + 1)
			forms = append(forms[:at], append([]*node{m}, forms[at:]...)...)
		}
		h.load(0, forms)
		if compileMains {
			h.compile(0)
		}
		for i := 0; i < k; i++ {
			h.run(0, false)
		}
	}
	return h
}

func Run(ctx *common.Ctx) {
	defineEmit()
	caseRng = ctx.Rng
	ngroups := 600
	if ctx.Thorough() {
		ngroups = 3000
	}
	var terms []string
	var descs []any
	distinct := map[string]bool{}
	for gi := 0; gi < ngroups; gi++ {
		caseNo++
		base := genProgram(ctx, "zz")
		tmpl := ctx.Rng.Intn(nTemplates)
		nvar := 1
		if tmpl == tDirect || tmpl == tCompile || tmpl == tSplit {
			nvar = 2 + ctx.Rng.Intn(2)
		}
		if tmpl == tRedefine {
			nvar = 2 // the second variant reaches the same final definitions in one code object
		}
		if base.undefCalls > 0 {
			ctx.Hist("programs-with:call-of-never-defined-function")
		}
		var groupMains [][]string
		var groupDescs []any
		groupFmak := false
		for v := 0; v < nvar; v++ {
			prefix := fmt.Sprintf("q%d%c", caseNo, 'p'+v)
			p := &program{fns: base.fns, redefI: base.redefI}
			for _, d := range base.defs {
				p.defs = append(p.defs, rename(d, "zz", prefix))
			}
			for _, m := range base.mains {
				p.mains = append(p.mains, rename(m, "zz", prefix))
			}
			for _, ds := range base.redefs {
				var rs []*node
				for _, d := range ds {
					rs = append(rs, rename(d, "zz", prefix))
				}
				p.redefs = append(p.redefs, rs)
			}
			t := tmpl
			if nvar > 1 && v > 0 {
				// the variants of a group differ in order, in whether the code is compiled, and in repetitions
				t = []int{tDirect, tCompile, tSplit}[ctx.Rng.Intn(3)]
				if tmpl == tRedefine {
					t = tFinal
				}
			}
			order := perm(ctx, len(p.defs))
			k := 1 + ctx.Rng.Intn(5)
			h := play(ctx, p, t, order, ctx.Rng.Bool(), k)
			ctx.Hist("template:" + tnames[t])
			ctx.Hist(fmt.Sprintf("functions:%d", len(p.defs)))
			ctx.Hist(fmt.Sprintf("runs:%d", len(h.gobs)))
			if h.failed {
				ctx.Violate("reading, compiling or evaluating a generated program failed or did not terminate", h.recs, nil, nil)
				continue
			}
			for _, r := range h.recs {
				if r.Op == "load" {
					for _, kw := range []string{"(case ", "(floor ", "(values", "(def", "(let", "(set"} {
						n := strings.Count(strings.ToLower(r.Lisp), kw)
						if kw == "(def" {
							n -= strings.Count(strings.ToLower(r.Lisp), "(defun ")
						}
						if n > 0 {
							ctx.Hist("loads-with:" + kw)
						}
					}
					if strings.ToLower(r.Lisp) != r.Lisp {
						ctx.Hist("loads-with:other-case-name")
					}
				}
				if r.Op == "run" {
					key := strings.SplitN(r.Outcome, " ", 2)[0]
					if !strings.HasPrefix(key, "!") {
						key = "value"
					}
					ctx.Hist("outcome:" + key)
				}
			}
			term := fmt.Sprintf("(%s,\n    %s)", common.GList(h.gops), common.GList(h.gobs))
			terms = append(terms, term)
			d := map[string]any{"template": tnames[t], "definition_order": order, "history": h.recs}
			descs = append(descs, d)
			ctx.Meta.Evaluations += len(h.gobs)
			sig := strings.ReplaceAll(strings.Join(h.gops, ";"), prefix, "")
			distinct[sig] = true
			if len(terms)%97 == 1 {
				ctx.Sample(d)
			}
			if nvar > 1 {
				groupMains = append(groupMains, h.mains)
				groupDescs = append(groupDescs, d)
			}
			if h.fmaks > 0 {
				groupFmak = true
			}
		}
		// direct comparison across the variants of a group: every evaluation of the main forms, whatever the
		// definition order, compiled or not, first or k-th, must give the same outcome - unless the outcome is
		// undefined-function (the time at which an undefined operator is noticed may differ between the list form
		// and compiled code).  In a redefine-between-runs group the evaluations after the last round of
		// redefinitions are compared with the one-object variant that makes all definitions in order first.
		var ref string
		if groupFmak {
			// a function made unbound (and perhaps not redefined) changes the final meaning: model only
			groupMains = nil
		}
		if base.initForms {
			// the init form of a variable is evaluated where the definition stands: with another order of the
			// definitions it legitimately sees other function definitions (and emits at another moment); such
			// programs are judged by the model only
			groupMains = nil
			ctx.Hist("programs-with:init-form")
		}
		if base.hasLet {
			ctx.Hist("programs-with:defun-inside-let")
			if tmpl == tRedefine {
				// Code.Compile makes the top-level definitions of a code object before the let forms are evaluated:
				// with several definitions of one function in one compiled object the last one made differs
				groupMains = nil
			}
		}
		if base.bareGlobal {
			// programs with a bare non-parameter body symbol take part in the direct comparison since repo fix
			// C08-4 (the symbol is looked up at call time, whatever existed when the defun was evaluated)
			ctx.Hist("direct-comparison:with-bare-free-symbol")
		}
		for vi, ms := range groupMains {
			for _, m := range ms {
				m = strings.ReplaceAll(m, fmt.Sprintf("q%d%c", caseNo, 'p'+vi), "")
				if strings.HasPrefix(m, "!undefined-function") {
					continue
				}
				if ref == "" {
					ref = m
				} else if m != ref {
					ctx.Violate("the same program gives different outcomes under another definition order / compiled or not / on a later evaluation",
						groupDescs, m, ref)
					ref = "-"
					break
				}
			}
			if ref == "-" {
				break
			}
		}
	}
	// ---- systematic blocks (enumerated, not random) -------------------------------------------------
	for _, sc := range systematic() {
		caseNo++
		prefix := fmt.Sprintf("q%ds", caseNo)
		h := &hist{scope: slip.NewScope(), next: 1, codes: map[int]slip.Code{}}
		for _, st := range sc.steps {
			switch st.op {
			case "load":
				fs := make([]*node, len(st.forms))
				for i, f := range st.forms {
					fs[i] = rename(f, "zz", prefix)
				}
				h.load(st.cid, fs)
			case "compile":
				h.compile(st.cid)
			case "fmak":
				h.fmak(strings.Replace(st.name, "zz", prefix, 1))
			default:
				h.run(st.cid, false)
			}
		}
		ctx.Hist("template:systematic-" + sc.block)
		if h.failed {
			ctx.Violate("reading, compiling or evaluating an enumerated program failed or did not terminate", h.recs, nil, nil)
			continue
		}
		terms = append(terms, fmt.Sprintf("(%s,\n    %s)", common.GList(h.gops), common.GList(h.gobs)))
		descs = append(descs, map[string]any{"template": "systematic-" + sc.block, "what": sc.what, "history": h.recs})
		ctx.Meta.Evaluations += len(h.gobs)
		distinct[strings.ReplaceAll(strings.Join(h.gops, ";"), prefix, "")] = true
	}
	ctx.Meta.DistinctNontrivial = len(distinct)
	ctx.Meta.Rule = "programs of 2-5 functions (names sharing prefixes with def*/let*/set*/if/lambda/quote/progn forms, 15% of the occurrences of a function name written in another case) over +,-,<,list,rest,progn,if,case,floor,values,nil,t,emit, defvar/defparameter of 1-2 variables whose names are also parameters of some functions (defined before and after the functions, redefined between runs), 22% of the bodies bare symbols (parameter / shared name / other), list-valued forms - often empty list objects - as tests of if (35%), branches, clause forms, arguments (multiple-value producers in every argument position, as branches, bodies and main forms) with calls in argument position to functions of lower level and recursive calls (to any function, mutual recursion included) under (if (< n 1) ..); 0-3 rounds of redefinitions; 1-3 main forms; random definition order; seven history templates over code objects (one of them the REPL/load discipline: each form read, compiled and evaluated on its own) (load, Code.Compile, Code.Eval k=1..5 times, definitions before/after/between the main forms, redefinition between runs, fresh re-reading) plus, for every redefinition history, the variant with all definitions and redefinitions in one code object (direct comparison of the final meaning); 1.5% of the sub-expressions calls of a never-defined function with emitting / failing arguments (lookup time of an undefined operator); 22% of the variable definitions with an init FORM (call of a program function, arithmetic, emit) evaluated where the definition stands - by Code.Compile for a compiled object; 7% of the function definitions inside a let binding the shared / parameter names (closure), redefined at top level and back; Code.Compile is an observed operation (result or condition + emitted values); ENUMERATED blocks: init-timing = {defvar, defparameter} x variable definition before / between / after two definitions of the function its init form calls x 3 init shapes x {list form, compiled, compiled and run twice} (54 histories); closure-redefinition = {let->top, top->let, let->let', top->top, let->let} x global variable defined or not x caller defined before or after x second definition's object compiled or not x body (+ n x) / bare x (80 histories); fmakunbound-redefinition = function defined before its caller or only referenced x {redefined at once, old caller called while unbound, new caller compiled while unbound} x new definition's object compiled or not x 2 bodies (24 histories; (fmakunbound 'f) is a history operation, also before 30% of the redefinition rounds and at 8% of them anywhere); wrong argument counts in 7% of the calls; evaluations = evaluations or compilations of a code object; distinct = distinct histories up to the name prefix"
	header := "From Coq Require Import List ZArith String.\nFrom C08 Require Import Model Spec Corr.\nImport ListNotations.\nOpen Scope string_scope.\nOpen Scope list_scope.\n"
	footer := "Definition res := Eval vm_compute in check_all cases.\nPrint res.\nDefinition gcount := Eval vm_compute in guard_count cases.\nPrint gcount.\nDefinition outside := Eval vm_compute in outside_count cases.\nPrint outside.\nDefinition deviations := Eval vm_compute in deviation_count cases.\nPrint deviations.\nDefinition lookuplate := Eval vm_compute in late_count cases.\nPrint lookuplate.\n"
	ctx.WriteShards("cases", header, "case", footer, terms, descs, 16)
	runInherit(ctx)
	ctx.ReplayKnownLisp()
}

// ---- enumerated histories -------------------------------------------------------------------------

type sstep struct {
	op    string
	cid   int
	forms []*node
	name  string
}

type scase struct {
	block, what string
	steps       []sstep
}

func dfun(name string, params []string, body ...*node) *node {
	ps := make([]*node, len(params))
	for i, p := range params {
		ps[i] = Y(p)
	}
	return L(append([]*node{Y("defun"), F(name), L(ps...)}, body...)...)
}

// systematic enumerates two small families of histories completely (names carry "zz", replaced per case).
func systematic() (out []scase) {
	f, g, v := "zzf", "zzg", "zzv"
	// init-timing: where does the init form of a variable see which definition of the function it calls?
	for _, kind := range []string{"defvar", "defparameter"} {
		for pos := 0; pos < 3; pos++ {
			for ii, init := range []*node{ucall(f, I(5)), call("+", I(1), ucall(f, I(5))), call("emit", ucall(f, I(5)))} {
				for mode := 0; mode < 3; mode++ {
					forms := []*node{dfun(f, []string{"n"}, call("+", Y("n"), I(2))), dfun(f, []string{"n"}, call("+", Y("n"), I(3)))}
					vd := L(Y(kind), Y(v), init)
					forms = append(forms[:pos], append([]*node{vd}, forms[pos:]...)...)
					forms = append(forms, call("list", Y(v), ucall(f, I(5))))
					steps := []sstep{{op: "load", cid: 0, forms: forms}}
					if mode > 0 {
						steps = append(steps, sstep{op: "compile", cid: 0})
					}
					steps = append(steps, sstep{op: "run", cid: 0})
					if mode == 2 {
						steps = append(steps, sstep{op: "run", cid: 0})
					}
					out = append(out, scase{block: "init-timing",
						what:  fmt.Sprintf("%s at position %d of two definitions of the function its init form (shape %d) calls, mode %d", kind, pos, ii, mode),
						steps: steps})
				}
			}
		}
	}
	// closure-redefinition: a definition replaces the closure of the previous one
	x := v
	letdef := func(k int64, body *node) *node {
		return L(Y("let"), L(L(Y(x), I(k))), dfun(f, []string{"n"}, body))
	}
	for pi, pair := range [][2]string{{"L1", "T"}, {"T", "L1"}, {"L1", "L2"}, {"T", "T"}, {"L1", "L1"}} {
		for glob := 0; glob < 2; glob++ {
			for callerFirst := 0; callerFirst < 2; callerFirst++ {
				for comp := 0; comp < 2; comp++ {
					for bi := 0; bi < 2; bi++ {
						body := func() *node {
							if bi == 0 {
								return call("+", Y("n"), Y(x))
							}
							return Y(x)
						}
						mk := func(kind string) *node {
							switch kind {
							case "L1":
								return letdef(10, body())
							case "L2":
								return letdef(20, body())
							}
							return dfun(f, []string{"n"}, body())
						}
						caller := dfun(g, []string{"n"}, ucall(f, Y("n")))
						main := func() *node { return call("list", ucall(f, I(1)), ucall(g, I(1))) }
						var o0 []*node
						if callerFirst == 1 {
							o0 = append(o0, caller)
						}
						o0 = append(o0, mk(pair[0]))
						if callerFirst == 0 {
							o0 = append(o0, caller)
						}
						o0 = append(o0, main())
						var o1 []*node
						if glob == 1 {
							o1 = append(o1, L(Y("defvar"), Y(x), I(1)))
						}
						o1 = append(o1, mk(pair[1]), main())
						steps := []sstep{{op: "load", cid: 0, forms: o0}, {op: "run", cid: 0}, {op: "load", cid: 1, forms: o1}}
						if comp == 1 {
							steps = append(steps, sstep{op: "compile", cid: 1})
						}
						steps = append(steps, sstep{op: "run", cid: 1}, sstep{op: "load", cid: 2, forms: []*node{main()}}, sstep{op: "run", cid: 2},
							sstep{op: "run", cid: 0}, sstep{op: "run", cid: 2})
						out = append(out, scase{block: "closure-redefinition",
							what:  fmt.Sprintf("definitions %s then %s (pair %d), global variable %d, caller first %d, second object compiled %d, body %d", pair[0], pair[1], pi, glob, callerFirst, comp, bi),
							steps: steps})
					}
				}
			}
		}
	}
	// fmakunbound-redefinition: callers compiled before the fmakunbound must follow the new definition
	for known := 0; known < 2; known++ { // f defined before its caller, or only referenced by it
		for between := 0; between < 3; between++ { // nothing / the old caller is called / a new caller is compiled
			for comp := 0; comp < 2; comp++ {
				for bi := 0; bi < 2; bi++ {
					body := func(k int64) *node {
						if bi == 0 {
							return call("+", Y("n"), I(k))
						}
						return call("list", Y("n"), call("emit", I(k)))
					}
					caller := dfun(g, []string{"n"}, ucall(f, Y("n")))
					var o0 []*node
					if known == 1 {
						o0 = append(o0, dfun(f, []string{"n"}, body(1)), caller, ucall(g, I(1)))
					} else {
						o0 = append(o0, caller, L(Y("defvar"), Y(v), I(0)))
					}
					steps := []sstep{{op: "load", cid: 0, forms: o0}, {op: "run", cid: 0}, {op: "fmak", name: f}}
					switch between {
					case 1:
						steps = append(steps, sstep{op: "load", cid: 3, forms: []*node{ucall(g, I(1))}}, sstep{op: "run", cid: 3})
					case 2:
						steps = append(steps, sstep{op: "load", cid: 3, forms: []*node{dfun("zzk", []string{"n"}, ucall(f, Y("n")))}}, sstep{op: "run", cid: 3})
					}
					steps = append(steps, sstep{op: "load", cid: 1, forms: []*node{dfun(f, []string{"n"}, body(2)), call("list", ucall(g, I(1)), ucall(f, I(1)))}})
					if comp == 1 {
						steps = append(steps, sstep{op: "compile", cid: 1})
					}
					steps = append(steps, sstep{op: "run", cid: 1}, sstep{op: "run", cid: 1})
					out = append(out, scase{block: "fmakunbound-redefinition",
						what:  fmt.Sprintf("function defined before its caller %d, between fmakunbound and redefinition %d, compiled %d, body %d", known, between, comp, bi),
						steps: steps})
				}
			}
		}
	}
	return
}
