package c08

// Round 5: functions inherited from a used package (coq/C08/Inherit.v). A library package holds functions written
// in go (no Lambda registered) or defined with defun; two packages use it; the functions are (re)defined through
// any of the three packages, calls are compiled in between and evaluated later.

import (
	"fmt"
	"strings"

	"github.com/ohler55/slip"
	"verifharness/common"
)

type inhGo struct {
	slip.Function
}

// Call returns the argument: callers pass 0, definitions made by defun add at least 1.
func (f *inhGo) Call(s *slip.Scope, args slip.List, depth int) slip.Object {
	slip.CheckArgCount(s, depth, f, args, 1, 1)
	return args[0]
}

type iop struct {
	kind    byte // 'd' defun, 'c' compile, 'x' call
	p, c, f int
	v       int
}

func (o iop) gal() string {
	switch o.kind {
	case 'd':
		return fmt.Sprintf("IDefun %d %d %d", o.p, o.f, o.v)
	case 'c':
		return fmt.Sprintf("ICompile %d %d %d", o.p, o.c, o.f)
	}
	return fmt.Sprintf("ICall %d", o.c)
}

var inhNo int

// playInherit runs one history on the implementation: gofs are the names written in go in the library.
func playInherit(gofs []int, ops []iop) (obs []string, recs []string, failed string) {
	inhNo++
	prefix := fmt.Sprintf("c08i%d", inhNo)
	scope := slip.NewScope()
	orig := slip.CurrentPackage
	pname := func(p int) string {
		if p == 0 {
			return prefix + "-lib"
		}
		return fmt.Sprintf("%s-app%d", prefix, p)
	}
	fname := func(f int) string { return fmt.Sprintf("%sf%d", prefix, f) }
	eval := func(src string) (res slip.Object, cls string) {
		defer func() {
			if r := recover(); r != nil {
				a, b := classify(r)
				res, cls = nil, a+" "+b
			}
		}()
		return slip.ReadString(src, scope).Eval(scope, nil), ""
	}
	defer func() {
		scope.Set("*package*", orig)
		for p := 2; 0 <= p; p-- {
			if pk := slip.FindPackage(pname(p)); pk != nil {
				func() {
					defer func() { _ = recover() }()
					slip.RemovePackage(pk)
				}()
			}
		}
	}()
	if _, cls := eval(fmt.Sprintf(`(defpackage '%s (:use "cl" "cl-user"))`, pname(0))); cls != "" {
		return nil, nil, "defpackage lib: " + cls
	}
	lib := slip.FindPackage(pname(0))
	if lib == nil {
		return nil, nil, "library package not found"
	}
	for _, g := range gofs {
		name := fname(g)
		lib.Define(
			func(args slip.List) slip.Object {
				f := inhGo{Function: slip.Function{Name: name, Args: args}}
				f.Self = &f
				return &f
			},
			&slip.FuncDoc{
				Name:   name,
				Kind:   slip.FunctionSymbol,
				Args:   []*slip.DocArg{{Name: "x", Type: "object"}},
				Return: "object",
			})
		recs = append(recs, fmt.Sprintf("go: Package(%s).Define(%s) ; a function written in go returning its argument", pname(0), name))
	}
	for p := 1; p <= 2; p++ {
		if _, cls := eval(fmt.Sprintf(`(defpackage '%s (:use "cl" "cl-user" "%s"))`, pname(p), pname(0))); cls != "" {
			return nil, nil, "defpackage app: " + cls
		}
	}
	recs = append(recs, fmt.Sprintf("packages %s and %s use %s", pname(1), pname(2), pname(0)))
	codes := map[int]slip.Code{}
	inPkg := func(p int) bool {
		_, cls := eval(fmt.Sprintf(`(in-package '%s)`, pname(p)))
		return cls == ""
	}
	for _, o := range ops {
		switch o.kind {
		case 'd':
			if !inPkg(o.p) {
				return nil, recs, "in-package failed"
			}
			src := fmt.Sprintf("(defun %s (x) (+ x %d))", fname(o.f), o.v)
			_, cls := eval(src)
			recs = append(recs, fmt.Sprintf("in %s: %s", pname(o.p), src))
			if cls != "" {
				return nil, recs, "defun failed: " + cls
			}
			if o.p == 0 {
				lib.Export(fname(o.f))
				recs = append(recs, fmt.Sprintf("go: Package(%s).Export(%s)", pname(0), fname(o.f)))
			}
		case 'c':
			if !inPkg(o.p) {
				return nil, recs, "in-package failed"
			}
			src := fmt.Sprintf("(%s 0)", fname(o.f))
			var code slip.Code
			bad := ""
			func() {
				defer func() {
					if r := recover(); r != nil {
						a, b := classify(r)
						bad = a + " " + b
					}
				}()
				code = slip.ReadString(src, scope)
				code.Compile()
			}()
			recs = append(recs, fmt.Sprintf("in %s: caller %d := Code.Compile of %s", pname(o.p), o.c, src))
			if bad != "" {
				return nil, recs, "compile failed: " + bad
			}
			codes[o.c] = code
		case 'x':
			code := codes[o.c]
			g, shown := "RNone", "no such caller"
			if code != nil {
				func() {
					defer func() {
						if r := recover(); r != nil {
							a, b := classify(r)
							if a == "Err EUndefined" {
								g, shown = "RUndef", b
							} else {
								g, shown = "ROther", a+" "+b
							}
						}
					}()
					res := code.Eval(scope, nil)
					if n, ok := res.(slip.Fixnum); ok && 0 <= n {
						if n == 0 {
							g, shown = "RGo", "0 (the go function)"
						} else {
							g, shown = fmt.Sprintf("RVal %d", int(n)), fmt.Sprint(int(n))
						}
					} else {
						g, shown = "ROther", slip.ObjectString(res)
					}
				}()
			}
			obs = append(obs, g)
			recs = append(recs, fmt.Sprintf("evaluate caller %d => %s", o.c, shown))
		}
	}
	return obs, recs, ""
}

type icase struct {
	what string
	gofs []int
	ops  []iop
}

// inheritEnumerated: function kind {written in go in the library, defined with defun in the library, the using
// package's own} x the packages (library, user 1, user 2) through which three successive definitions are made x
// the package the callers are compiled in x a caller compiled before the first definition or not. After every
// definition a new caller is compiled and all callers are evaluated.
func inheritEnumerated() (out []icase) {
	kinds := []string{"go-in-library", "defun-in-library", "own"}
	for ki, kind := range kinds {
		for early := 0; early < 2; early++ {
			for pc := 1; pc <= 2; pc++ {
				for ps := 0; ps < 27; ps++ {
					dp := []int{ps % 3, (ps / 3) % 3, ps / 9}
					var gofs []int
					var ops []iop
					val := 1
					switch ki {
					case 0:
						gofs = []int{1}
					case 1:
						ops = append(ops, iop{kind: 'd', p: 0, f: 1, v: val})
						val++
					}
					nc := 0
					if early == 1 {
						ops = append(ops, iop{kind: 'c', p: pc, c: nc, f: 1}, iop{kind: 'x', c: nc})
						nc++
					}
					for _, p := range dp {
						ops = append(ops, iop{kind: 'd', p: p, f: 1, v: val})
						val++
						ops = append(ops, iop{kind: 'c', p: pc, c: nc, f: 1})
						nc++
						for c := 0; c < nc; c++ {
							ops = append(ops, iop{kind: 'x', c: c})
						}
					}
					out = append(out, icase{
						what: fmt.Sprintf("%s, definitions through packages %v, callers compiled in package %d, caller before the first definition: %v", kind, dp, pc, early == 1),
						gofs: gofs, ops: ops})
				}
			}
		}
	}
	return
}

func inheritRandom(ctx *common.Ctx) icase {
	r := ctx.Rng
	nf := 1 + r.Intn(3)
	var gofs []int
	var ops []iop
	val := 1
	for f := 1; f <= nf; f++ {
		switch r.Intn(3) {
		case 0:
			gofs = append(gofs, f)
		case 1:
			ops = append(ops, iop{kind: 'd', p: 0, f: f, v: val})
			val++
		}
	}
	nc := 0
	n := 6 + r.Intn(12)
	for i := 0; i < n; i++ {
		k := r.Intn(10)
		switch {
		case k < 3:
			ops = append(ops, iop{kind: 'd', p: r.Intn(3), f: 1 + r.Intn(nf), v: val})
			val++
		case k < 6:
			ops = append(ops, iop{kind: 'c', p: r.Intn(3), c: nc, f: 1 + r.Intn(nf)})
			nc++
		default:
			if 0 < nc {
				ops = append(ops, iop{kind: 'x', c: r.Intn(nc)})
			}
		}
	}
	for c := 0; c < nc; c++ {
		ops = append(ops, iop{kind: 'x', c: c})
	}
	return icase{what: "random", gofs: gofs, ops: ops}
}

// staleGoWitness is the witness of the known finding C08-go-caller-stale (coq: inherit_go_caller_refuted).
var staleGoWitness = icase{what: "known finding", gofs: []int{1}, ops: []iop{
	{kind: 'c', p: 1, c: 0, f: 1}, {kind: 'x', c: 0}, {kind: 'd', p: 1, f: 1, v: 7}, {kind: 'x', c: 0}}}

func runInherit(ctx *common.Ctx) {
	cases := inheritEnumerated()
	nrand := 150
	if ctx.Thorough() {
		nrand = 1500
	}
	for i := 0; i < nrand; i++ {
		cases = append(cases, inheritRandom(ctx))
	}
	var terms []string
	var descs []any
	for _, c := range cases {
		obs, recs, failed := playInherit(c.gofs, c.ops)
		if failed != "" {
			ctx.Violate("an inherited-function history could not be run: "+failed, recs, nil, nil)
			continue
		}
		var gops []string
		for _, o := range c.ops {
			gops = append(gops, o.gal())
		}
		terms = append(terms, fmt.Sprintf("(%s, [%s],\n    [%s])", common.GList(intStrs(c.gofs)), strings.Join(gops, "; "), strings.Join(obs, "; ")))
		descs = append(descs, map[string]any{"template": "inherited-" + strings.SplitN(c.what, ",", 2)[0], "what": c.what, "history": recs})
		ctx.Meta.Evaluations += len(obs)
		if c.what == "random" {
			ctx.Hist("inherited:random")
		} else {
			ctx.Hist("inherited:enumerated")
		}
	}
	ctx.Meta.DistinctNontrivial += len(terms)
	ctx.Meta.Rule += "; ENUMERATED block inherited (coq/C08/Inherit.v): a library package and two packages using it; function {written in go in the library (no registered Lambda), defined by defun in the library and exported, own to the using package} x three successive definitions through {library, user 1, user 2}^3 x callers compiled in user 1 / user 2 x a caller compiled before the first definition or not (324 histories; after every definition a new caller is compiled and all callers are evaluated) plus random histories over 1-3 such functions (30% defun through a random package, 30% compile a caller in a random package, 40% evaluate a caller; all callers evaluated at the end)"
	header := "From Coq Require Import List Arith NArith.\nFrom C08 Require Import Inherit InheritCorr.\nImport ListNotations.\nOpen Scope list_scope.\n"
	footer := "Definition res := Eval vm_compute in icheck_all cases.\nPrint res.\nDefinition gcount := Eval vm_compute in iguard_count cases.\nPrint gcount.\nDefinition outside := Eval vm_compute in ioutside_count cases.\nPrint outside.\n"
	ctx.WriteShards("inherit", header, "icase", footer, terms, descs, 4)

	obs, _, failed := playInherit(staleGoWitness.gofs, staleGoWitness.ops)
	got := failed
	if failed == "" {
		got = strings.Join(obs, "; ")
	}
	ctx.KnownResult("C08-go-caller-stale", got == "RGo; RGo", got)
}

func intStrs(xs []int) []string {
	out := make([]string, len(xs))
	for i, x := range xs {
		out[i] = fmt.Sprint(x)
	}
	return out
}
